"""C01 — every storage backend implements the one documented storage contract (DESIGN.md §3 C01)."""
from __future__ import annotations

import optuna
from optuna.distributions import FloatDistribution, IntDistribution, CategoricalDistribution
from optuna.exceptions import DuplicatedStudyError, UpdateFinishedTrialError
from optuna.storages import InMemoryStorage, JournalStorage
from optuna.storages._cached_storage import _CachedStorage
from optuna.storages._grpc import client as gclient, servicer as gservicer
from optuna.storages.journal import _storage as jstorage
from optuna.study import StudyDirection
from optuna.trial import TrialState, create_trial

import symex as sx
from symex import Obligation
from harness.spec_storage import SpecStorage
from stubs.fake_rdb import FakeRDB
from stubs.journal_list import ListBackend
from stubs import grpc_direct

META = {
    "level": "other",
    "explanation": (
        "Differential bounded symbolic execution: each reachable backend (InMemoryStorage; JournalStorage + JournalStorageReplayResult over an "
        "in-memory list backend with the JSON model; _CachedStorage over the fake RDB; GrpcStorageProxy -> OptunaStorageProxyService with the real "
        "protobuf messages in front of in-memory and of journal) runs in lockstep with SpecStorage, an executable transcription of the BaseStorage "
        "docstrings. A seed (two studies, three trials with a symbolic template state) is followed by a suffix of symbolic calls (method, target "
        "study/trial among live / deleted / never-issued ids, study name, key, state, values as z3 reals or NaN/inf forks, step, distribution "
        "compatible or not, template contents). After EVERY call the return value, the exception class and the full readable state (all getters "
        "over all live and deleted ids; tuple and list forms of the WAITING filter) are compared; ids are compared up to the bijection built as "
        "the run proceeds, trial numbers exactly; float equality is decided by z3 with NaN == NaN."
    ),
    "assumptions": ["RDBStorage itself (SQL) is replaced by the fake RDB under _CachedStorage; gRPC transport replaced by a direct call with real protobuf messages",
                    "values flowing through the proxy are concrete (protobuf doubles), through the other backends z3 reals",
                    "datetime fields are compared for presence only"],
    "outside": ["RDBStorage SQL, Redis journal backend, gRPC wire transport", "attr values beyond JSON scalars and one nested list", "histories longer than the suffix bound"],
}

BACKENDS = ["inmemory", "journal", "cached", "grpc-inmemory", "grpc-journal"]
STATES = [TrialState.RUNNING, TrialState.COMPLETE, TrialState.PRUNED, TrialState.FAIL, TrialState.WAITING]
DISTS = {"float": FloatDistribution(0.0, 1.0), "float-step": FloatDistribution(0.0, 1.0, step=0.25), "int": IntDistribution(0, 4),
         "cat": CategoricalDistribution(["a", "b"])}
NEVER = 9999


def mk_backend(kind):
    if kind == "inmemory":
        return InMemoryStorage()
    if kind == "journal":
        return JournalStorage(ListBackend())
    if kind == "cached":
        return _CachedStorage(FakeRDB())
    if kind == "grpc-inmemory":
        return grpc_direct.proxy_over(InMemoryStorage())
    if kind == "grpc-journal":
        return grpc_direct.proxy_over(JournalStorage(ListBackend()))
    raise KeyError(kind)


def setup(concrete):
    grpc_direct.install_real_pb2()
    if not concrete:
        from stubs.shims import shim_frozen_trial
        shim_frozen_trial()


class Lockstep:
    def __init__(self, kind):
        self.kind = kind
        self.impl = mk_backend(kind)
        self.spec = SpecStorage()
        self.smap = {}     # spec study id -> impl study id
        self.tmap = {}
        self.dead_s = {}
        self.dead_t = {}
        self.conds = []
        self.hist = []
        self.nv = 0
        self.concrete_values = kind.startswith("grpc")

    def val(self, tag, kinds=("finite",)):
        self.nv += 1
        if self.concrete_values:
            k = sx.choose(list(kinds), f"kind:{tag}{self.nv}") if len(kinds) > 1 else kinds[0]
            return {"finite": 0.5 + self.nv, "nan": float("nan"), "inf": float("inf"), "-inf": float("-inf")}[k]
        return sx.sym_float(f"{tag}{self.nv}", kinds)

    def s_impl(self, sid):
        return self.smap.get(sid, self.dead_s.get(sid, NEVER))

    def t_impl(self, tid):
        return self.tmap.get(tid, self.dead_t.get(tid, NEVER))

    def call(self, name, spec_args, impl_args, creates=None):
        """run the same call on both; compare exception class and return value"""
        self.hist.append((name,) + tuple(repr(a)[:40] for a in spec_args))
        sx.note("history", list(self.hist))
        se = ie = None
        sr = ir = None
        try:
            sr = getattr(self.spec, name)(*spec_args)
        except (KeyError, DuplicatedStudyError, UpdateFinishedTrialError, ValueError) as e:
            se = type(e)
        try:
            ir = getattr(self.impl, name)(*impl_args)
        except (KeyError, DuplicatedStudyError, UpdateFinishedTrialError, ValueError) as e:
            ie = type(e)
        assert se == ie, f"{self.kind}.{name}{self.hist[-1][1:]}: raised {ie.__name__ if ie else None}, contract says {se.__name__ if se else None}"
        if se is None:
            if creates == "study":
                self.smap[sr] = ir
            elif creates == "trial":
                assert ir not in self.tmap.values() and ir not in self.dead_t.values(), f"{self.kind}: trial id {ir} handed out twice"
                self.tmap[sr] = ir
            elif name == "delete_study":
                sid = spec_args[0]
                self.dead_s[sid] = self.smap.pop(sid)
                for tid in [t for t in self.tmap if t not in self.spec.trials]:
                    self.dead_t[tid] = self.tmap.pop(tid)
            elif name == "get_trial_id_from_study_id_trial_number" or name == "get_study_id_from_name":
                m = self.tmap if name.startswith("get_trial") else self.smap
                assert m.get(sr) == ir, f"{self.kind}.{name}: returned id {ir}, contract says {m.get(sr)}"
            else:
                assert sr == ir, f"{self.kind}.{name}{self.hist[-1][1:]}: returned {ir!r}, contract says {sr!r}"
        self.compare()

    def eq(self, a, b, what):
        r = sx.eq_nan(a, b)
        if r is False:
            raise AssertionError(f"{self.kind}: {what}: {a!r} != {b!r}")
        if r is not True:
            self.conds.append(r)

    def cmp_trial(self, ft, st, what):
        assert ft.number == st["number"], f"{self.kind}: {what}: number {ft.number} != {st['number']}"
        assert ft.state == st["state"], f"{self.kind}: {what}: state {ft.state.name} != {st['state'].name}"
        assert (ft.values is None) == (st["values"] is None), f"{self.kind}: {what}: values {ft.values!r} vs contract {st['values']!r}"
        if ft.values is not None:
            assert len(ft.values) == len(st["values"]), f"{self.kind}: {what}: values {ft.values!r} vs {st['values']!r}"
            for a, b in zip(ft.values, st["values"]):
                self.eq(a, b, what + " values")
        assert set(ft.params) == set(st["params"]) and ft.distributions == st["distributions"], f"{self.kind}: {what}: params/distributions differ"
        for k in ft.params:
            self.eq(ft.params[k], st["params"][k], what + f" param {k}")
        assert set(ft.intermediate_values) == set(st["intermediate_values"]), f"{self.kind}: {what}: intermediate steps differ"
        for k in ft.intermediate_values:
            self.eq(ft.intermediate_values[k], st["intermediate_values"][k], what + f" intermediate {k}")
        for attr in ("user_attrs", "system_attrs"):
            fa, sa = getattr(ft, attr), st[attr]
            assert set(fa) == set(sa), f"{self.kind}: {what}: {attr} keys {sorted(fa)} vs {sorted(sa)}"
            for k in fa:
                if sx.is_sym(fa[k]) or sx.is_sym(sa[k]) or isinstance(fa[k], float):
                    self.eq(fa[k], sa[k], what + f" {attr}[{k}]")
                else:
                    assert fa[k] == sa[k], f"{self.kind}: {what}: {attr}[{k}] {fa[k]!r} != {sa[k]!r}"
        assert (ft.datetime_complete is not None) == st["state"].is_finished() or st.get("template"), f"{self.kind}: {what}: datetime_complete presence"

    def compare(self):
        impl, spec = self.impl, self.spec
        view = spec.view()
        got_studies = {s._study_id: s for s in impl.get_all_studies()}
        assert set(got_studies) == {self.smap[s] for s in view}, f"{self.kind}: live studies {sorted(got_studies)} vs contract {sorted(self.smap[s] for s in view)}"
        for sid, (name, dirs, ua, sa, trials) in view.items():
            i = self.smap[sid]
            fs = got_studies[i]
            assert fs.study_name == name and list(fs.directions) == dirs, f"{self.kind}: study {sid} name/directions"
            assert impl.get_study_name_from_id(i) == name and list(impl.get_study_directions(i)) == dirs
            assert impl.get_study_id_from_name(name) == i
            for attr, want in (("user_attrs", ua), ("system_attrs", sa)):
                got = getattr(impl, f"get_study_{attr}")(i)
                assert set(got) == set(want), f"{self.kind}: study {attr} keys"
                for k in got:
                    self.eq(got[k], want[k], f"study {attr}[{k}]") if (sx.is_sym(got[k]) or isinstance(got[k], float)) else None
                    assert sx.is_sym(got[k]) or isinstance(got[k], float) or got[k] == want[k], f"{self.kind}: study {attr}[{k}]"
            fts = impl.get_all_trials(i, deepcopy=False)
            assert [t._trial_id for t in fts] == [self.tmap[tid] for tid, _ in trials], \
                f"{self.kind}: trials of study {sid}: ids {[t._trial_id for t in fts]} vs contract {[self.tmap[tid] for tid, _ in trials]}"
            assert impl.get_n_trials(i) == len(trials)
            for ft, (tid, st) in zip(fts, trials):
                self.cmp_trial(ft, st, f"trial {st['number']} of study {sid} (get_all_trials)")
                self.cmp_trial(impl.get_trial(self.tmap[tid]), st, f"trial {st['number']} of study {sid} (get_trial)")
                assert impl.get_trial_id_from_study_id_trial_number(i, st["number"]) == self.tmap[tid]
                assert impl.get_trial_number_from_id(self.tmap[tid]) == st["number"]
            # state filters: tuple and list forms agree with the contract
            for flt in ((TrialState.WAITING,), [TrialState.WAITING], (TrialState.COMPLETE, TrialState.PRUNED)):
                want = [st["number"] for _, st in trials if st["state"] in flt]
                got = [t.number for t in impl.get_all_trials(i, deepcopy=False, states=flt)]
                assert got == want, f"{self.kind}: get_all_trials(states={type(flt).__name__} {[s.name for s in flt]}) = {got}, contract says {want}"
        # a deleted study and its trials are gone
        for sid, i in self.dead_s.items():
            for getter in ("get_study_name_from_id", "get_study_directions", "get_all_trials", "get_study_user_attrs"):
                try:
                    getattr(impl, getter)(i)
                    raise AssertionError(f"{self.kind}: {getter}() of a deleted study does not raise KeyError")
                except KeyError:
                    pass
        for tid, i in self.dead_t.items():
            try:
                impl.get_trial(i)
                raise AssertionError(f"{self.kind}: get_trial() of a trial of a deleted study does not raise KeyError")
            except KeyError:
                pass


def template(L, tag, state):
    kw = {}
    if state == TrialState.COMPLETE:
        kw["values"] = [L.val(tag + "_v", ("finite", "inf"))]
    iv = {0: L.val(tag + "_iv", ("finite", "nan"))} if state in (TrialState.COMPLETE, TrialState.PRUNED) else {}
    return create_trial(state=state, params={"x": 0.25}, distributions={"x": DISTS["float"]}, user_attrs={"u": [1, "a"]}, system_attrs={"s": 1},
                        intermediate_values=iv, **kw)


def suffix_call(L, i, rich=True):
    ops = ["create_new_study", "delete_study", "set_study_user_attr", "set_study_system_attr", "create_new_trial", "set_trial_param",
           "set_trial_state_values", "set_trial_intermediate_value", "set_trial_user_attr", "set_trial_system_attr",
           "get_trial_id_from_study_id_trial_number", "get_study_id_from_name"]
    if not rich:
        ops = ["create_new_study", "delete_study", "create_new_trial", "set_trial_param", "set_trial_state_values", "set_trial_user_attr"]
    op = sx.choose(ops, f"c{i}.op")
    spec = L.spec
    all_s = sorted(set(spec.studies) | set(L.dead_s)) + [NEVER]
    all_t = sorted(set(spec.trials) | set(L.dead_t)) + [NEVER]
    pick_s = lambda: all_s[sx.choose(len(all_s), f"c{i}.study")]   # noqa: E731
    pick_t = lambda: all_t[sx.choose(len(all_t), f"c{i}.trial")]   # noqa: E731
    if op == "create_new_study":
        name = sx.choose(["s0", "fresh", "s1"], f"c{i}.name")
        dirs = [StudyDirection.MINIMIZE] if sx.choose(2, f"c{i}.ndir") == 0 else [StudyDirection.MAXIMIZE, StudyDirection.MINIMIZE]
        L.call(op, (dirs, name), (dirs, name), creates="study")
    elif op == "delete_study":
        s = pick_s()
        L.call(op, (s,), (L.s_impl(s),))
    elif op in ("set_study_user_attr", "set_study_system_attr"):
        s = pick_s()
        key = sx.choose(["a", "b"], f"c{i}.key")
        v = L.val(f"c{i}_attr") if op == "set_study_user_attr" else {"k": [1, 2]}
        L.call(op, (s, key, v), (L.s_impl(s), key, v))
    elif op == "create_new_trial":
        s = pick_s()
        tk = sx.choose(["none", "WAITING", "COMPLETE", "PRUNED", "FAIL", "RUNNING"] if rich else ["none", "WAITING", "COMPLETE"], f"c{i}.template")
        t = None if tk == "none" else template(L, f"c{i}", TrialState[tk])
        L.call(op, (s, t), (L.s_impl(s), t), creates="trial")
    elif op == "set_trial_param":
        t = pick_t()
        name = sx.choose(["x", "y"], f"c{i}.param")
        d = DISTS[sx.choose(["float", "int", "cat", "float-step"] if rich else ["float", "int"], f"c{i}.dist")]
        L.call(op, (t, name, 1.0, d), (L.t_impl(t), name, 1.0, d))
    elif op == "set_trial_state_values":
        t = pick_t()
        st = STATES[sx.choose(5, f"c{i}.state")]
        vk = sx.choose(["none", "one"], f"c{i}.values") if st != TrialState.COMPLETE else "one"
        vals = None if vk == "none" else [L.val(f"c{i}_v", ("finite", "inf", "-inf") if rich else ("finite",))]
        L.call(op, (t, st, vals), (L.t_impl(t), st, vals))
    elif op == "set_trial_intermediate_value":
        t = pick_t()
        step = sx.choose([0, 1, 7] if rich else [0, 7], f"c{i}.step")
        v = L.val(f"c{i}_iv", ("finite", "nan", "inf") if rich else ("finite", "nan"))
        L.call(op, (t, step, v), (L.t_impl(t), step, v))
    elif op in ("set_trial_user_attr", "set_trial_system_attr"):
        t = pick_t()
        key = sx.choose(["u", "new"], f"c{i}.key")
        v = L.val(f"c{i}_attr") if op == "set_trial_user_attr" else [1, {"n": None}]
        L.call(op, (t, key, v), (L.t_impl(t), key, v))
    elif op == "get_trial_id_from_study_id_trial_number":
        s = pick_s()
        n = sx.choose([0, 1, 5] if rich else [1, 5], f"c{i}.number")
        L.call(op, (s, n), (L.s_impl(s), n))
    else:
        name = sx.choose(["s0", "s1", "nope"], f"c{i}.name")
        L.call(op, (name,), (name,))


def make_body(backends, k_calls, seed_states=("RUNNING", "WAITING", "COMPLETE", "FAIL"), rich=True):
    def body():
        kind = sx.choose(backends, "backend")
        L = Lockstep(kind)
        L.call("create_new_study", ([StudyDirection.MINIMIZE], "s0"), ([StudyDirection.MINIMIZE], "s0"), creates="study")
        L.call("create_new_study", ([StudyDirection.MINIMIZE], "s1"), ([StudyDirection.MINIMIZE], "s1"), creates="study")
        L.call("create_new_trial", (0, None), (L.s_impl(0), None), creates="trial")                 # t0 RUNNING in s0
        L.call("create_new_trial", (1, None), (L.s_impl(1), None), creates="trial")                 # t1 RUNNING in s1 (ids interleave across studies)
        st = TrialState[sx.choose(list(seed_states), "seed.state")]
        tmpl = None if st == TrialState.RUNNING else template(L, "seed", st)
        L.call("create_new_trial", (0, tmpl), (L.s_impl(0), tmpl), creates="trial")                 # t2 in s0 with a symbolic template
        L.call("set_trial_param", (0, "x", 0.5, DISTS["float"]), (L.t_impl(0), "x", 0.5, DISTS["float"]))
        for i in range(k_calls):
            suffix_call(L, i, rich or i == k_calls - 1)
        sx.reach("compared")
        return sx.all_of(L.conds) if L.conds else True
    return body


CODE = [InMemoryStorage.create_new_trial, InMemoryStorage.set_trial_state_values, InMemoryStorage.set_trial_param, InMemoryStorage.delete_study,
        InMemoryStorage.get_all_trials, JournalStorage.create_new_trial, JournalStorage.set_trial_state_values, jstorage.JournalStorageReplayResult.apply_logs,
        jstorage.JournalStorageReplayResult._apply_create_trial, jstorage.JournalStorageReplayResult._apply_delete_study,
        jstorage.JournalStorageReplayResult._apply_set_trial_state_values, _CachedStorage.create_new_trial, _CachedStorage.get_all_trials,
        gclient.GrpcStorageProxy.set_trial_state_values, gclient.GrpcStorageProxy.create_new_trial, gclient.GrpcStorageProxy.get_all_trials,
        gservicer.OptunaStorageProxyService.SetTrialStateValues, gservicer.OptunaStorageProxyService.CreateNewTrial, gservicer._to_proto_trial,
        gservicer._from_proto_trial]


def classify(c):
    import re
    m = re.sub(r"at [\w\.]+:\d+: ", "", c["message"])
    kind = m.split(":")[0].split(".")[0].split(" ")[-1] if m else ""
    hist = c.get("notes", {}).get("history", [])
    last = hist[-1][0] if hist else ""
    if "of a trial of a deleted study does not raise KeyError" in m:
        return f"{kind}|deleted-study-trials-still-readable"
    if "set_trial_state_values" in m and "returned True, contract says False" in m:
        return f"{kind}|RUNNING-to-RUNNING-returns-True"
    if "get_all_trials(states=tuple ['WAITING'])" in m:
        return f"{kind}|WAITING-tuple-filter-misses-requeued-trial"
    return f"{kind}|{last}|{re.sub(r'[0-9]+', 'N', m)[:70]}"


def obligations(tier):
    q = tier == "quick"
    obs = []
    for b in BACKENDS:
        obs.append(Obligation(f"lockstep-{b}-k2", make_body([b], 2, seed_states=(("WAITING", "COMPLETE") if b in ("inmemory", "journal") else ("WAITING",)) if q else ("RUNNING", "WAITING", "COMPLETE", "FAIL"), rich=not q), setup, CODE, bounds=dict(backend=b, seed="2 studies, 3 trials, symbolic template", suffix_calls=2),
                              shard_depth=5, budget_s=1500, classify=classify, require_reach=["compared"],
                              describe=f"{b} vs the executable contract, every 2-call suffix"))
    if not q:
        for b in ["inmemory", "journal"]:
            obs.append(Obligation(f"lockstep-{b}-k3", make_body([b], 3, seed_states=("WAITING",), rich=False), setup, CODE,
                                  bounds=dict(backend=b, suffix_calls=3, alphabet="lean for the first two calls, full for the third"), shard_depth=6,
                                  budget_s=3000, classify=classify, require_reach=["compared"],
                                  describe=f"{b} vs the executable contract, 3-call suffixes"))
    return obs
