"""C04 — a queued trial is handed to exactly one worker, with its fixed parameters (DESIGN.md §3 C04)."""
from __future__ import annotations

import optuna
from optuna.storages import InMemoryStorage, JournalStorage
from optuna.storages.journal._storage import JournalStorageReplayResult
from optuna.study import Study, StudyDirection
from optuna.trial import TrialState, create_trial, Trial

import symex as sx
from symex import Obligation
from symex.sched import Sched, Stepwise
from stubs.journal_list import ListBackend

META = {
    "level": "other",
    "explanation": (
        "Bounded symbolic execution of the real queue code: (a) compare-and-set step - from seeded states, two claimers (two callers of one "
        "in-memory storage; two JournalStorage objects on one log, also when a claimer already owns another trial or enqueued the trial "
        "itself) call set_trial_state_values(t, RUNNING) in either order: exactly one gets True iff t was WAITING; (b) cursor invariant of the "
        "in-memory WAITING fast path: after any seeded state and any suffix of queue operations the fast path equals the generic path; (c) pop "
        "loop under interleaving: 2-3 workers run the real Study.ask()/suggest in hand-over-hand threads, every storage call is one atomic step "
        "and the next worker to move is an explorer choice, producers (enqueue_trial / add_trial WAITING / finishing) interleaved: no queued "
        "trial is returned twice, none is skipped while workers keep asking, numbers/user attrs are kept and suggest_* return the enqueued values "
        "verbatim (z3 reals; also out of range)."
    ),
    "assumptions": ["each storage call is atomic (in-memory RLock, journal file lock + thread lock; C03/C07 carry that)",
                    "journal workers = separate JournalStorage objects over one in-memory list backend with the JSON model",
                    "float()/np.isnan in optuna.distributions are shimmed so that enqueued values can be z3 reals"],
    "outside": ["RDB row-level claim (SQL)", "real threads/processes", "n_jobs"],
}


def setup(concrete):
    if not concrete:
        from stubs.shims import shim_frozen_trial, shim_tell
        import optuna.distributions as od
        from stubs.npshim import npshim
        shim_frozen_trial()
        shim_tell()
        od.float = sx.FloatType
        od.np = npshim


def mk_backend(kind, offset):
    """returns (list of per-worker storages factory, first storage); offset = trials of another study sharing the id space"""
    if kind == "inmemory":
        st = InMemoryStorage()
        mk = lambda: st  # noqa: E731
    else:
        be = ListBackend()
        st = JournalStorage(be)
        mk = lambda: JournalStorage(be)  # noqa: E731
    if offset:
        sid = st.create_new_study([StudyDirection.MINIMIZE], "other")
        for _ in range(offset):
            st.create_new_trial(sid, create_trial(state=TrialState.WAITING))
    return st, mk


# ------------------------------------------------------------------------------------------ (a) CAS step
def cas_body():
    kind = sx.choose(["inmemory", "journal"], "backend")
    offset = sx.choose([0, 2], "id_offset")
    st0, mk = mk_backend(kind, offset)
    sid = st0.create_new_study([StudyDirection.MINIMIZE], "s")
    c1, c2 = (st0, st0) if kind == "inmemory" else (mk(), mk())
    # history before the claim
    hist = sx.choose(["none", "c1-owns-running", "c1-owns-finished", "c1-enqueued-it", "other-study-recreated"], "history")
    if hist == "c1-owns-running":
        c1.create_new_trial(sid)
    elif hist == "c1-owns-finished":
        t0 = c1.create_new_trial(sid)
        c1.set_trial_state_values(t0, TrialState.COMPLETE, [1.0])
    elif hist == "other-study-recreated":
        s2 = c1.create_new_study([StudyDirection.MINIMIZE], "tmp")
        c1.create_new_trial(s2)
        c1.delete_study(s2)
        c1.create_new_study([StudyDirection.MINIMIZE], "tmp")
    pre = sx.choose(["WAITING", "RUNNING", "COMPLETE", "FAIL"], "target_state")
    creator = c1 if hist == "c1-enqueued-it" else (c2 if kind == "journal" else c1)
    if pre == "WAITING":
        tid = creator.create_new_trial(sid, create_trial(state=TrialState.WAITING, system_attrs={"fixed_params": {"x": 0.5}}))
    elif pre == "RUNNING":
        tid = creator.create_new_trial(sid)
    else:
        tid = creator.create_new_trial(sid, create_trial(state=TrialState[pre], value=0.0 if pre == "COMPLETE" else None))
    order = sx.choose(["c1-first", "c2-first"], "order")
    res = {}
    for who in (("c1", "c2") if order == "c1-first" else ("c2", "c1")):
        c = c1 if who == "c1" else c2
        try:
            res[who] = c.set_trial_state_values(tid, TrialState.RUNNING)
        except optuna.exceptions.UpdateFinishedTrialError:
            res[who] = "UpdateFinishedTrialError"
    sx.note("scenario", dict(backend=kind, history=hist, target=pre, order=order, result=res))
    sx.reach("claimed")
    wins = [w for w, r in res.items() if r is True]
    final = c2.get_trial(tid).state
    if pre == "WAITING":
        assert len(wins) == 1, f"{len(wins)} claimers got True for a WAITING trial: {res}"
        first = "c1" if order == "c1-first" else "c2"
        assert wins == [first], f"the second claimer won: {res}"
        assert final == TrialState.RUNNING
    elif pre == "RUNNING":
        assert not wins, f"claim of an already RUNNING trial succeeded for {wins}: {res}"
        assert final == TrialState.RUNNING
    else:
        assert not wins and final == TrialState[pre], f"claim of a finished trial: {res}, final {final}"
    return True


# ------------------------------------------------------------------------------------------ (b) cursor invariant
def make_cursor_body(k_ops):
    def body():
        offset = sx.choose([0, 1, 3], "id_offset")
        st, _ = mk_backend("inmemory", offset)
        sid = st.create_new_study([StudyDirection.MINIMIZE], "s")
        n_seed = sx.choose([0, 1, 2], "seed_trials")
        for i in range(n_seed):
            s = TrialState[sx.choose(["WAITING", "RUNNING", "COMPLETE"], f"seed{i}.state")]
            st.create_new_trial(sid, None if s == TrialState.RUNNING else create_trial(state=s, value=0.0 if s == TrialState.COMPLETE else None))
        hist = []

        def check(when):
            fast = [t.number for t in st.get_all_trials(sid, deepcopy=False, states=(TrialState.WAITING,))]
            slow = [t.number for t in st.get_all_trials(sid, deepcopy=False, states=[TrialState.WAITING])]
            assert fast == slow, f"{when}: WAITING fast path {fast} != generic path {slow} after {hist}"
            sx.reach("cursor-checked")
        for i in range(k_ops):
            op = sx.choose(["peek", "add-waiting", "add-running", "add-complete", "claim", "finish", "other-study-add"], f"op{i}")
            trials = st.get_all_trials(sid, deepcopy=False)
            if op == "peek":
                check(f"peek {i}")
            elif op.startswith("add-"):
                s = {"add-waiting": TrialState.WAITING, "add-running": TrialState.RUNNING, "add-complete": TrialState.COMPLETE}[op]
                st.create_new_trial(sid, None if s == TrialState.RUNNING else create_trial(state=s, value=0.0 if s == TrialState.COMPLETE else None))
            elif op == "other-study-add":
                o = st.get_study_id_from_name("other") if offset else st.create_new_study([StudyDirection.MINIMIZE], f"o{i}")
                st.create_new_trial(o, create_trial(state=TrialState.WAITING))
            else:
                if not trials:
                    sx.cur().abort()
                t = trials[int(sx.sym_int(f"op{i}_trial", 0, len(trials) - 1))]
                try:
                    if op == "claim":
                        st.set_trial_state_values(t._trial_id, TrialState.RUNNING)
                    else:
                        fs = TrialState[sx.choose(["COMPLETE", "FAIL", "PRUNED"], f"op{i}.state")]
                        if t.state == TrialState.WAITING:
                            sx.cur().abort()                      # the queue alphabet finishes only claimed trials
                        st.set_trial_state_values(t._trial_id, fs, [0.0] if fs == TrialState.COMPLETE else None)
                except optuna.exceptions.UpdateFinishedTrialError:
                    pass
            hist.append(op)
        check("final")
        return True
    return body


# ------------------------------------------------------------------------------------------ (c) pop loop under interleaving
class StubSampler(optuna.samplers.BaseSampler):
    def infer_relative_search_space(self, study, trial):
        return {}

    def sample_relative(self, study, trial, search_space):
        return {}

    def sample_independent(self, study, trial, param_name, dist):
        return -123.0 if isinstance(dist, optuna.distributions.FloatDistribution) else dist.choices[0] if hasattr(dist, "choices") else dist.low


def make_pop_body(kind, n_workers, n_queued, producers, offset_opts=(0, 2), coarse=False):
    def body():
        offset = sx.choose(list(offset_opts), "id_offset")
        st0, mk = mk_backend(kind, offset)
        sid = st0.create_new_study([StudyDirection.MINIMIZE], "s")
        sched = Sched()
        studies = []
        for w in range(n_workers):
            stw = st0 if kind == "inmemory" else mk()
            s = optuna.load_study(study_name="s", storage=stw, sampler=StubSampler())
            studies.append(s)
        main = studies[0]
        qvals = {}
        # initial queue, filled by worker 0's study object (so the enqueuer is itself a claimer later)
        for q in range(n_queued):
            how = sx.choose(["enqueue", "add-waiting"], f"q{q}.how")
            v = sx.sym_real(f"q{q}_x")
            pd, ua = {"x": v, "c": "b", "n": None}, {"q": q}
            if how == "enqueue":
                main.enqueue_trial(pd, user_attrs=ua)
            else:
                main.add_trial(create_trial(state=TrialState.WAITING, user_attrs=ua, system_attrs={"fixed_params": pd}))
            # the caller goes on using (and changing) its own dicts, e.g. a sweep that updates one dict in place: the queue keeps what
            # was enqueued
            pd["x"], pd["c"], pd["n"] = -7.0, "a", "z"
            ua["q"] = "changed-by-caller-after-enqueue"
            num = main._storage.get_all_trials(sid, deepcopy=False)[-1].number
            qvals[num] = v
        # coarse: scheduling points only before the calls that read or write the queue (the other storage calls of ask() touch the
        # worker's own trial or immutable study data and commute with everything)
        only = {"get_all_trials", "set_trial_state_values", "create_new_trial"} if coarse else None
        for s in studies:
            s._storage = Stepwise(s._storage, sched, only=only)
        got = []

        def worker(k):
            def run():
                s = studies[k]
                if k in producers:
                    act = producers[k]
                    if act == "enqueue-then-ask":
                        s.enqueue_trial({"x": 0.75, "c": "a"}, user_attrs={"q": "late"})
                t = s.ask()
                import threading
                threading.current_thread().no_yield = True     # suggest_* touch only this worker's trial: no scheduling points needed
                x = t.suggest_float("x", 0, 1)           # range may not contain the enqueued value: it must still be returned verbatim
                c = t.suggest_categorical("c", ["a", "b"])
                y = t.suggest_float("y", 0, 1)           # not enqueued: comes from the sampler
                nn = t.suggest_categorical("n", ["z", None])     # None is a legitimate (enqueued) categorical value
                got.append((k, t.number, x, c, y, dict(t.user_attrs), nn))
                if k in producers and producers[k] == "ask-then-finish":
                    s.tell(t, 1.0)
                    threading.current_thread().no_yield = False
                    t2 = s.ask()
                    threading.current_thread().no_yield = True
                    got.append((k, t2.number, t2.suggest_float("x", 0, 1), t2.suggest_categorical("c", ["a", "b"]), None, dict(t2.user_attrs),
                                t2.suggest_categorical("n", ["z", None])))
            return run
        for k in range(n_workers):
            sched.spawn(worker(k), f"w{k}")
        sched.run()
        for w in sched.workers:
            assert "exc" not in w, f"worker raised {w.get('exc')!r}"
        sx.note("scenario", dict(backend=kind, schedule=sched.trace, got=[(g[0], g[1]) for g in got]))
        sx.reach("asked")
        nums = [g[1] for g in got]
        assert len(set(nums)) == len(nums), f"a trial was handed out twice: {[(g[0], g[1]) for g in got]}"
        conds = []
        n_asks = len(got)
        all_trials = st0.get_all_trials(sid, deepcopy=False)
        waiting = [t.number for t in all_trials if t.state == TrialState.WAITING]
        n_total_queued = n_queued + sum(1 for a in producers.values() if a == "enqueue-then-ask")
        # no queued trial is skipped while workers keep asking: a fresh trial is created only when the queue was empty at that moment,
        # so at the end either the queue is empty or every ask got a queued trial
        claimed_queued = [g for g in got if g[1] in qvals or g[5].get("q") == "late"]
        if not producers:
            assert not waiting or len(claimed_queued) == n_asks, \
                f"queued trials {waiting} still WAITING although {n_asks - len(claimed_queued)} ask() calls created fresh trials"
        # whatever the interleaving, no queued trial may be skipped for good: further ask() calls must drain the queue
        for s in studies:
            s._storage = s._storage._i
        for _ in range(len(waiting)):
            t = studies[-1].ask()
            assert t.number in waiting, f"ask() created fresh trial {t.number} while {waiting} are still WAITING (skipped for good)"
            assert t.number not in nums, "drained trial had already been handed out"
            nums.append(t.number)
        left = [t.number for t in st0.get_all_trials(sid, deepcopy=False) if t.state == TrialState.WAITING]
        assert not left, f"queued trials {left} are never handed out"
        for (k, num, x, c, y, ua, nn) in got:
            if num in qvals:
                assert nn is None, f"enqueued categorical value None was not handed to the worker (got {nn!r})"
                sx.reach("queued-trial-claimed")
                conds.append(sx.eq_nan(x, qvals[num]))                  # enqueued value verbatim
                assert c == "b", f"categorical fixed param lost: {c}"
                assert ua.get("q") == list(qvals).index(num) or ua.get("q") == sorted(qvals).index(num), f"user attrs lost: {ua}"
                assert y is None or y == -123.0, "non-enqueued parameter must come from the sampler"
            elif ua.get("q") == "late":
                assert x == 0.75 and c == "a"
            else:
                assert x == -123.0, f"fresh trial got a fixed value {x}"
                assert nn == "z", f"fresh trial got a fixed value {nn!r}"
        return sx.all_of(conds) if conds else True
    return body


CODE = [Study._pop_waiting_trial_id, Study.ask, Study.enqueue_trial, Study.add_trial, Trial.__init__, Trial._suggest, Trial._is_fixed_param,
        InMemoryStorage.set_trial_state_values, InMemoryStorage.get_all_trials, InMemoryStorage.create_new_trial,
        JournalStorage.set_trial_state_values, JournalStorageReplayResult._apply_set_trial_state_values,
        JournalStorageReplayResult._apply_create_trial]


def classify(c):
    import re
    m = re.sub(r"at [\w\.]+:\d+: ", "", c["message"])
    sc = c.get("notes", {}).get("scenario", {})
    return f"{sc.get('backend', '')}|{re.sub(r'[0-9]+', 'N', m)[:90]}"


def obligations(tier):
    q = tier == "quick"
    obs = [
        Obligation("cas-step", cas_body, setup, CODE, bounds=dict(backends=["inmemory", "journal"], histories=5, target_states=4, orders=2),
                   budget_s=300, classify=classify, require_reach=["claimed"],
                   describe="two claimers, either order, every pre-state: exactly one True iff WAITING"),
        Obligation("waiting-cursor", make_cursor_body(3 if q else 4), setup, CODE, bounds=dict(seed_trials="0..2", ops=3 if q else 4, id_offset=[0, 1, 3]),
                   shard_depth=4, budget_s=900, classify=classify, require_reach=["cursor-checked"],
                   describe="in-memory WAITING fast path == generic path after any queue-alphabet suffix"),
        Obligation("pop-inmemory-2w", make_pop_body("inmemory", 2, 2, {}), setup, CODE, bounds=dict(workers=2, queued=2),
                   shard_depth=5, budget_s=900, classify=classify, require_reach=["asked", "queued-trial-claimed"],
                   describe="2 workers ask concurrently, 2 queued trials, in-memory"),
        Obligation("pop-journal-2w", make_pop_body("journal", 2, 2, {}), setup, CODE, bounds=dict(workers=2, queued=2),
                   shard_depth=5, budget_s=900, classify=classify, require_reach=["asked", "queued-trial-claimed"],
                   describe="2 journal workers (own storage objects, one log), 2 queued trials"),
        Obligation("pop-journal-producer", make_pop_body("journal", 2, 1, {0: "enqueue-then-ask"}, offset_opts=(0,)), setup, CODE,
                   bounds=dict(workers=2, queued=1, producer="worker 0 enqueues then asks"),
                   shard_depth=5, budget_s=900, classify=classify, require_reach=["asked", "queued-trial-claimed"],
                   describe="the enqueuing worker itself competes for its trial"),
        Obligation("pop-inmemory-finish", make_pop_body("inmemory", 2, 2, {1: "ask-then-finish"}, offset_opts=(2,)), setup, CODE,
                   bounds=dict(workers=2, queued=2, producer="worker 1 finishes and asks again"),
                   shard_depth=5, budget_s=900, classify=classify, require_reach=["asked", "queued-trial-claimed"],
                   describe="finish + second ask interleaved, ids offset by another study"),
    ]
    if not q:
        obs.append(Obligation("pop-inmemory-3w", make_pop_body("inmemory", 3, 3, {}, coarse=True), setup, CODE, bounds=dict(workers=3, queued=3, scheduling_points="queue calls only"),
                              shard_depth=7, budget_s=3000, classify=classify, require_reach=["asked", "queued-trial-claimed"], describe="3 workers, 3 queued"))
        obs.append(Obligation("pop-journal-3w", make_pop_body("journal", 3, 2, {0: "enqueue-then-ask"}, offset_opts=(0,), coarse=True), setup, CODE,
                              bounds=dict(workers=3, queued=2), shard_depth=7, budget_s=3000, classify=classify,
                              require_reach=["asked", "queued-trial-claimed"], describe="3 journal workers with a producer"))
    return obs
