"""C12 — best_trial / best_value / best_trials are exactly the optimum of the history (DESIGN.md §3 C12)."""
from __future__ import annotations

import optuna
from optuna.storages import InMemoryStorage, JournalStorage, BaseStorage
from optuna.storages._cached_storage import _CachedStorage
from optuna.study import _multi_objective as mo, Study
from optuna.study._constrained_optimization import _get_feasible_trials, _CONSTRAINTS_KEY
from optuna.trial import TrialState, create_trial

import symex as sx
from symex import Obligation
from stubs.fake_rdb import FakeRDB
from stubs.journal_list import ListBackend

META = {
    "level": "other",
    "explanation": (
        "Bounded symbolic execution of the real best-trial code (InMemoryStorage._update_cache/get_best_trial, BaseStorage.get_best_trial "
        "via JournalStorage, Study.best_trial incl. the constraint fallback, Study.best_trials -> _get_pareto_front_trials_by_trials -> "
        "_is_pareto_front*) on symbolic histories: trial states and the way of completion (template / ask+tell) are forks, objective "
        "values are z3 reals or forked +-inf with symbolic ties, constraint values z3 reals. The oracle is the O(n^2) definition "
        "evaluated as a z3 formula over the same values; z3 discharges it on every path."
    ),
    "assumptions": ["NumPy in optuna.study._multi_objective rebound to the object-array shim (np.unique(axis=0), any/all)",
                    "journal records pass through the JSON model (finite numbers and Infinity tokens round-trip exactly)",
                    "constraint fallback precondition as documented: constraints are recorded on every COMPLETE trial or on none"],
    "outside": ["RDBStorage.get_best_trial's SQL ORDER BY", "4 objectives, more than 4 trials", "NaN objective values (cannot be produced by tell)"],
}

BACKENDS = ["inmemory", "journal", "cached"]


def mk_storage(kind):
    if kind == "inmemory":
        return InMemoryStorage()
    if kind == "journal":
        return JournalStorage(ListBackend())
    return _CachedStorage(FakeRDB())


def setup(concrete):
    if not concrete:
        from stubs.npshim import npshim
        from stubs.shims import shim_frozen_trial, shim_tell
        mo.np = npshim
        shim_frozen_trial()
        shim_tell()


def better(a, b, maximize):
    return (a > b) if maximize else (a < b)


def make_single_body(n, backends, with_constraints):
    def body():
        kind = sx.choose(backends, "backend")
        maximize = bool(sx.choose(2, "maximize"))
        study = optuna.create_study(storage=mk_storage(kind), direction="maximize" if maximize else "minimize",
                                    sampler=optuna.samplers.RandomSampler(seed=0))
        cmode = sx.choose(["none", "all"], "constraints") if with_constraints else "none"
        complete = []      # (number, value, constraint or None)
        pending = []
        for i in range(n):
            how = sx.choose(["template-complete", "tell-complete", "tell-later", "pruned", "fail", "running", "waiting"], f"t{i}.how")
            v = sx.sym_float(f"v{i}", ("finite", "inf", "-inf")) if how in ("template-complete", "tell-complete", "tell-later") else None
            c = (sx.sym_real(f"c{i}a"), sx.sym_real(f"c{i}b")) if (cmode == "all" and v is not None) else None
            sa = {} if c is None else {_CONSTRAINTS_KEY: list(c)}
            if how == "template-complete":
                study.add_trial(create_trial(value=v, system_attrs=sa))
                complete.append((len(study.get_trials(deepcopy=False)) - 1, v, c))
            elif how in ("tell-complete", "tell-later"):
                t = study.ask()
                if c is not None:
                    study._storage.set_trial_system_attr(t._trial_id, _CONSTRAINTS_KEY, list(c))
                if how == "tell-complete":
                    study.tell(t, v)
                    complete.append((t.number, v, c))
                else:
                    pending.append((t, t.number, v, c))
            elif how == "pruned":
                t = study.ask()
                t.report(sx.sym_real(f"iv{i}"), 0)
                study.tell(t, state=TrialState.PRUNED)     # pruned trials carry a value but are not eligible
            elif how == "fail":
                study.tell(study.ask(), state=TrialState.FAIL)
            elif how == "running":
                study.ask()
            else:
                study.enqueue_trial({})
        # trials finish out of creation order
        for (t, i, v, c) in reversed(pending):
            study.tell(t, v)
            complete.append((i, v, c))
        sx.note("scenario", dict(backend=kind, maximize=maximize, constraints=cmode, complete=[x[0] for x in complete]))
        try:
            bt = study.best_trial
            got = bt.number
            assert study.best_value is bt.value or sx.eq_nan(study.best_value, bt.value) is not False
        except ValueError:
            got = None
        feasible = [(i, v, c) for (i, v, c) in complete]
        sx.reach("asked")
        if not complete:
            assert got is None, f"best_trial returned {got} although no trial is COMPLETE"
            return True
        if cmode == "none":
            assert got is not None, "ValueError although a COMPLETE trial exists"
            gv = [v for (i, v, c) in complete if i == got]
            assert gv, f"best_trial {got} is not a COMPLETE trial"
            sx.reach("optimum-checked")
            return sx.all_of([sx.not_(better(v, gv[0], maximize)) for (i, v, c) in complete])
        # constraints on every COMPLETE trial: feasible iff every constraint value is <= 0
        feas = lambda c: sx.all_of([c[0] <= 0, c[1] <= 0])      # noqa: E731
        any_feasible = sx.any_of([feas(c) for (i, v, c) in complete])
        if got is None:
            return sx.not_(any_feasible)
        g = [(v, c) for (i, v, c) in complete if i == got]
        assert g, f"best_trial {got} is not a COMPLETE trial"
        gv, gc = g[0]
        sx.reach("optimum-checked")
        return sx.all_of([any_feasible, feas(gc)] + [sx.implies(feas(c), sx.not_(better(v, gv, maximize))) for (i, v, c) in complete])
    return body


def dominated_by_some(i, vals, feas):
    """O(n^2) definition on normalised (minimise) values"""
    conds = []
    for j in range(len(vals)):
        if j == i:
            continue
        le = sx.all_of([a <= b for a, b in zip(vals[j], vals[i])])
        lt = sx.any_of([a < b for a, b in zip(vals[j], vals[i])])
        conds.append(sx.all_of([le, lt] + ([feas[j]] if feas is not None else [])))
    return sx.any_of(conds) if conds else False


def make_pareto_body(n, d, backends, with_constraints, mid_reads=False, dmasks=None, inf_last=False):
    def body():
        kind = sx.choose(backends, "backend")
        dmask = sx.choose(list(range(1 << d)) if dmasks is None else list(dmasks), "direction_mask")
        dirs = ["maximize" if dmask >> j & 1 else "minimize" for j in range(d)]
        study = optuna.create_study(storage=mk_storage(kind), directions=dirs, sampler=optuna.samplers.RandomSampler(seed=0))
        cmode = sx.choose(["none", "all"], "constraints") if with_constraints else "none"
        rows = []
        handle2 = optuna.load_study(study_name=study.study_name, storage=study._storage, sampler=optuna.samplers.RandomSampler(seed=1))

        def check_front(when):
            front = sorted(t.number for t in study.best_trials)
            vals = [r[1] for r in rows]
            feas = [sx.all_of([r[2][0] <= 0, r[2][1] <= 0]) for r in rows] if cmode == "all" else None
            conds = []
            for k, (num, _, c) in enumerate(rows):
                nd = sx.not_(dominated_by_some(k, vals, feas))
                member = nd if feas is None else sx.all_of([nd, feas[k]])
                conds.append(sx.iff(num in front, member))
            assert all(f in [r[0] for r in rows] for f in front), f"{when}: best_trials contains a non-COMPLETE trial"
            return front, conds
        all_conds = []
        for i in range(n):
            st = sx.choose(["complete", "fail"], f"t{i}.state") if i == n - 1 else "complete"
            if st == "fail":
                study.tell(study.ask(), state=TrialState.FAIL)
                continue
            # objective j == d-1 may be +inf for every trial (several front members then share an infinite coordinate)
            v = [sx.sym_float(f"v{i}_{j}", ("finite", "inf") if ((i == 0 and j == 0) or (inf_last and j == d - 1)) else ("finite",)) for j in range(d)]
            c = (sx.sym_real(f"c{i}a"), sx.sym_real(f"c{i}b")) if cmode == "all" else None
            sa = {} if c is None else {_CONSTRAINTS_KEY: list(c)}
            how = sx.choose(["template", "tell", "other-handle"] if mid_reads else ["template", "tell"], f"t{i}.how")
            if how == "template":
                study.add_trial(create_trial(values=v, system_attrs=sa))
            else:
                h = study if how == "tell" else handle2
                t = h.ask()
                if c is not None:
                    study._storage.set_trial_system_attr(t._trial_id, _CONSTRAINTS_KEY, list(c))
                h.tell(t, v)
            rows.append((len(study.get_trials(deepcopy=False)) - 1, [(-x if dmask >> j & 1 else x) for j, x in enumerate(v)], c))
            if mid_reads and i < n - 1 and sx.choose(2, f"t{i}.read_front"):
                sx.reach("mid-history-read")
                all_conds += check_front(f"after trial {i}")[1]
        front, conds = check_front("final")
        sx.note("scenario", dict(backend=kind, directions=dirs, constraints=cmode, front=front))
        sx.reach("front-computed")
        return sx.all_of(all_conds + conds)
    return body


CODE = [InMemoryStorage._update_cache, InMemoryStorage.get_best_trial, BaseStorage.get_best_trial, Study.best_trial, Study.best_value,
        Study.best_trials, _get_feasible_trials, mo._get_pareto_front_trials_by_trials, mo._get_pareto_front_trials, mo._is_pareto_front,
        mo._is_pareto_front_2d, mo._is_pareto_front_nd, mo._is_pareto_front_for_unique_sorted, mo._normalize_value]


def classify(c):
    import re
    sc = c.get("notes", {}).get("scenario", {})
    m = re.sub(r"at [\w\.]+:\d+: ", "", c["message"])
    m = re.sub(r"\d+", "N", m)
    return f"{sc.get('backend')}|{sc.get('constraints')}|{m[:80]}"


def obligations(tier):
    q = tier == "quick"
    obs = [
        Obligation("single-objective", make_single_body(3, BACKENDS, False), setup, CODE,
                   bounds=dict(trials=3, backends=BACKENDS, values="z3 real / +-inf", completion=["template", "tell", "tell out of order"]),
                   shard_depth=4, budget_s=900, classify=classify, require_reach=["asked", "optimum-checked"],
                   describe="best_trial is COMPLETE and no COMPLETE trial is strictly better; ValueError iff none"),
        Obligation("single-objective-constraints", make_single_body(3 if not q else 2, ["inmemory", "journal"] if q else BACKENDS, True), setup, CODE,
                   bounds=dict(trials=2 if q else 3, constraints="z3 reals on every COMPLETE trial"),
                   shard_depth=4, budget_s=900, classify=classify, require_reach=["asked", "optimum-checked"],
                   describe="with constraints recorded: feasible whenever a feasible trial exists and optimal among feasible ones"),
        Obligation("pareto-2d", make_pareto_body(3, 2, ["inmemory", "journal"], True), setup, CODE,
                   bounds=dict(trials=3, objectives=2, directions="all 4", constraints=["none", "all"]),
                   shard_depth=5, budget_s=900, classify=classify, require_reach=["front-computed"],
                   describe="best_trials == non-dominated (feasible) COMPLETE trials under the O(n^2) definition"),
    ]
    obs.append(Obligation("pareto-freshness", make_pareto_body(3, 2, ["inmemory", "journal"], False, mid_reads=True, dmasks=[1]), setup, CODE,
                          bounds=dict(trials=3, objectives=2, reads="after any trial", writers=["add_trial", "tell", "second Study handle"]),
                          shard_depth=5, budget_s=900, classify=classify, require_reach=["front-computed", "mid-history-read"],
                          describe="best_trials read repeatedly while trials arrive through add_trial / tell / another Study handle on the same storage"))
    if q:
        obs.append(Obligation("pareto-3d", make_pareto_body(3, 3, ["inmemory"], False), setup, CODE,
                              bounds=dict(trials=3, objectives=3, directions="all 8"), shard_depth=5, budget_s=900, classify=classify,
                              require_reach=["front-computed"], describe="3 objectives, n=3"))
        obs.append(Obligation("pareto-3d-shared-inf", make_pareto_body(3, 3, ["inmemory"], False, dmasks=[0, 4], inf_last=True), setup, CODE,
                              bounds=dict(trials=3, objectives=3, last_objective="finite or +inf for every trial"), shard_depth=5, budget_s=900, classify=classify,
                              require_reach=["front-computed"], describe="3 objectives with infinite values shared between front members"))
    else:
        obs.append(Obligation("pareto-3d", make_pareto_body(3, 3, ["inmemory", "journal"], True), setup, CODE,
                              bounds=dict(trials=3, objectives=3, directions="all 8", constraints=["none", "all"]), shard_depth=6, budget_s=2400,
                              classify=classify, require_reach=["front-computed"], describe="3 objectives, n=3, constraints"))
        obs.append(Obligation("pareto-2d-n4", make_pareto_body(4, 2, ["inmemory"], True), setup, CODE,
                              bounds=dict(trials=4, objectives=2), shard_depth=6, budget_s=2400, classify=classify,
                              require_reach=["front-computed"], describe="2 objectives, n=4"))
        obs.append(Obligation("single-objective-4", make_single_body(4, ["inmemory"], True), setup, CODE,
                              bounds=dict(trials=4), shard_depth=5, budget_s=2400, classify=classify, require_reach=["asked", "optimum-checked"],
                              describe="4 trials, in-memory cache"))
    return obs
