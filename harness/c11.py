"""C11 — distributions and parameter values round-trip through every encoding (DESIGN.md §3 C11)."""
from __future__ import annotations

import math
import numbers

import optuna
import optuna.distributions as od
from optuna.distributions import (FloatDistribution, IntDistribution, CategoricalDistribution, json_to_distribution, distribution_to_json,
                                  check_distribution_compatibility, _convert_old_distribution_to_new_distribution)

import symex as sx
from symex import Obligation
from symex.proxies import SymReal, SymInt, SymBool

META = {
    "level": "other",
    "explanation": (
        "Bounded symbolic execution of the real optuna.distributions code with symbolic distribution arguments and values. Int: low/high/"
        "value are UNBOUNDED z3 ints (|x|<2^53 asserted), step concrete per query: constructor adjusts high to the last grid point and is "
        "idempotent under reconstruction / JSON round trip, single() <=> one grid point, _contains(to_internal(v)) <=> v on the grid, "
        "to_external(to_internal(v)) == v. Float without step: z3 reals, closed interval, identity. Float with step: low/high are decimal "
        "numerals n/10^6 with n an unbounded z3 int (exact Decimal arithmetic through a Decimal shim), step a concrete decimal: adjusted "
        "high = low + floor((high-low)/step)*step, idempotent, single() <=> one grid point. Categorical: choices from a type lattice with "
        "symbolic numbers (True/1/1.0 collisions, NaN): every choice maps back to an equal choice; JSON round trips (JSON model) are equal "
        "and idempotent; compatibility answers unchanged; deprecated classes convert to equal new distributions."
    ),
    "assumptions": ["float(int) is exact for |int| < 2^53 (asserted as a precondition)",
                    "stepped floats: arguments are decimal numerals with <= 6 fractional digits, for which str(float(x)) is the numeral "
                    "(shortest-repr property for <= 15 significant digits; validated concretely in obligation decimal-shim-validation)",
                    "json.dumps/loads replaced by the JSON model when symbolic numbers flow through it"],
    "outside": ["doubles that are not short decimals as arguments of stepped floats", "the C json encoder (concrete validation only)",
                "the transform round trip for log-scaled parameters (uninterpreted exp/log; the clamp is covered under C10)"],
}

B53 = 2 ** 53


def P(x):
    return x if isinstance(x, SymBool) else bool(x)


# ------------------------------------------------------------------------------------------ shims
def setup_int(concrete):
    if concrete:
        return
    from stubs.npshim import npshim
    from stubs.journal_list import JsonModel
    od.int = sx.IntType
    # float(int) is exact below 2^53, so the internal representation of an int parameter is the int itself
    class _F(type):
        def __instancecheck__(cls, o):
            return isinstance(o, float) or sx.is_symnum(o)

        def __call__(cls, x=0.0):
            return x if isinstance(x, SymInt) else sx.float_shim(x)
    od.float = _F("float", (), {})
    od.np = npshim
    od.json = JsonModel()
    numbers.Real.register(SymReal)
    numbers.Real.register(SymInt)


def setup_float(concrete):
    if concrete:
        return
    from stubs.npshim import npshim
    from stubs.journal_list import JsonModel
    od.float = sx.FloatType
    od.np = npshim
    od.json = JsonModel()
    numbers.Real.register(SymReal)
    numbers.Real.register(SymInt)


def setup_dec(concrete):
    if concrete:
        return          # replay with real floats, real decimal, real json
    from stubs import decshim
    from stubs import journal_list
    from stubs.npshim import npshim
    journal_list.PASS_THROUGH = (decshim.SymDec,)
    od.decimal = decshim.DecimalModule()
    od.str = decshim.str_shim
    od.float = decshim.FloatType
    od.json = journal_list.JsonModel()
    od.np = npshim


# ------------------------------------------------------------------------------------------ Int
def make_int_body(step, log):
    def body():
        low = sx.sym_int("low", -B53 + 1, B53 - 1)
        high = sx.sym_int("high", -B53 + 1, B53 - 1)
        v = sx.sym_int("v", -B53 + 1, B53 - 1)
        sx.assume(low <= high)
        if log:
            sx.assume(low >= 1)
        d = IntDistribution(low, high, log=log, step=step)                     # REAL constructor (adjusts high)
        h = d.high
        conds = [low <= h, h <= high, (h - low) % step == 0, high - h < step]   # adjusted high is the last grid point of [low, high]
        d2 = IntDistribution(d.low, d.high, log=log, step=d.step)              # reconstruct from own attributes
        conds.append(d2.high == h)
        d3 = json_to_distribution(distribution_to_json(d))                     # JSON round trip (JSON model)
        conds += [d3.low == low, d3.high == h, d3.step == step, d3.log == log]
        d4 = json_to_distribution(distribution_to_json(d3))
        conds += [d4.low == low, d4.high == h]
        on_grid = sx.all_of([low <= v, v <= h, (v - low) % step == 0])
        try:
            iv = d.to_internal_repr(v)
        except ValueError:
            sx.reach("log-nonpositive-rejected")
            return sx.all_of(conds + [log, v <= 0])
        if log:
            conds.append(v > 0)
        conds.append(sx.iff(P(d._contains(iv)), on_grid))
        conds.append(sx.iff(P(d3._contains(d3.to_internal_repr(v))), on_grid))  # containment answers unchanged after the round trip
        conds.append(sx.iff(P(d.single()), h - low < step))
        conds.append(d.to_external_repr(iv) == v)
        check_distribution_compatibility(d, d3)
        sx.reach("checked")
        return sx.all_of(conds)
    return body


def make_int_fraction_body(step):
    """a non-integer internal value is never contained (small bounded range: real/int mixing is expensive for the solver)"""
    def body():
        low = sx.sym_int("low", -50, 50)
        high = sx.sym_int("high", -50, 50)
        sx.assume(low <= high)
        d = IntDistribution(low, high, step=step)
        x = sx.sym_real("x", -60, 60)
        sx.assume(sx.not_(x.is_integer()))
        sx.reach("checked")
        return sx.not_(P(d._contains(x)))
    return body


def int_old_body():
    """deprecated int classes convert to an equal new distribution"""
    import warnings
    warnings.simplefilter("ignore")
    low = sx.sym_int("low", -B53 + 1, B53 - 1)
    high = sx.sym_int("high", -B53 + 1, B53 - 1)
    sx.assume(low <= high)
    kind = sx.choose(["uniform", "loguniform"], "kind")
    step = sx.choose([1, 2, 5], "step") if kind == "uniform" else 1
    if kind == "loguniform":
        sx.assume(low >= 1)
        old = od.IntLogUniformDistribution(low, high)
    else:
        old = od.IntUniformDistribution(low, high, step=step)
    new = _convert_old_distribution_to_new_distribution(old, suppress_warning=True)
    back = json_to_distribution(distribution_to_json(old))
    sx.reach("checked")
    return sx.all_of([new.low == old.low, new.high == old.high, new.step == old.step, new.log == (kind == "loguniform"),
                      back.low == old.low, back.high == old.high, type(back) is type(old), back.step == old.step, P(back == old)])


# ------------------------------------------------------------------------------------------ Float without step
def float_plain_body():
    log = bool(sx.choose(2, "log"))
    low = sx.sym_real("low")
    high = sx.sym_real("high")
    v = sx.sym_float("v", ("finite", "nan", "inf", "-inf"))
    ok_args = sx.all_of([low <= high] + ([low > 0] if log else []))
    try:
        d = FloatDistribution(low, high, log=log)
        constructed = True
    except ValueError:
        constructed = False
    if not constructed:
        sx.reach("rejected")
        return sx.not_(ok_args)
    conds = [ok_args, d.low == low, d.high == high, d.step is None, d.log == log]
    d3 = json_to_distribution(distribution_to_json(d))
    conds += [d3.low == low, d3.high == high, d3.log == log, d3.step is None, P(d3 == d)]
    is_nan = isinstance(v, float) and math.isnan(v)
    try:
        iv = d.to_internal_repr(v)
        rejected = False
    except ValueError:
        rejected = True
    if rejected:
        # NaN always; non-positive values for log distributions
        conds.append(True if is_nan else (sx.all_of([log, v <= 0]) if True else False))
    else:
        assert not is_nan, "NaN accepted by to_internal_repr"
        conds.append(sx.eq_nan(iv, v))
        conds.append(sx.eq_nan(d.to_external_repr(iv), v))
        conds.append(sx.iff(P(d._contains(iv)), sx.all_of([low <= v, v <= high])))
    conds.append(sx.iff(P(d.single()), low == high))
    sx.reach("checked")
    return sx.all_of(conds)


# ------------------------------------------------------------------------------------------ Float with step (decimal numerals)
def make_float_step_body(step_str):
    def body():
        from stubs.decshim import SymDec, SCALE
        import decimal
        step = float(step_str)
        ns = int(decimal.Decimal(step_str) * SCALE)
        nl = sx.sym_int("low_n", -10 ** 12, 10 ** 12)
        nh = sx.sym_int("high_n", -10 ** 12, 10 ** 12)
        sx.assume(nl <= nh)
        import warnings
        warnings.simplefilter("ignore")
        if sx.cur().concrete:
            mk = lambda n: float(decimal.Decimal(n) / SCALE)                 # noqa: E731  the double a user gets by typing the numeral
            num = lambda x: int(decimal.Decimal(str(x)) * SCALE)             # noqa: E731
        else:
            mk = SymDec
            num = lambda x: x.n                                              # noqa: E731
        d = FloatDistribution(mk(nl), mk(nh), step=step)                     # REAL constructor (through the Decimal shim when symbolic)
        h = num(d.high)
        conds = [nl <= h, h <= nh, (h - nl) % ns == 0, nh - h < ns]          # adjusted high = low + floor((high-low)/step)*step
        d2 = FloatDistribution(d.low, d.high, step=d.step)                   # idempotent under reconstruction
        conds.append(num(d2.high) == h)
        d3 = json_to_distribution(distribution_to_json(d))
        conds += [num(d3.low) == nl, num(d3.high) == h, d3.step == step]
        conds.append(sx.iff(P(d.single()), h - nl < ns))
        sx.reach("checked")
        return sx.all_of(conds)
    return body


def decimal_shim_validation():
    """the short-decimal assumption and the Decimal shim against the real decimal module / real constructor on concrete numerals"""
    import itertools
    import time
    import warnings
    import decimal
    warnings.simplefilter("ignore")
    t0 = time.time()
    n = 0
    bad = []
    wrong = []
    real_od_float = float
    for digits in (0, 1, 2, 3, 6):
        for num in list(range(-25, 26)) + [10 ** 6 * 10 ** digits - 1, -(10 ** 6) * 10 ** digits + 1, 123456789, 999999999999]:
            x = num / 10 ** digits
            n += 1
            if decimal.Decimal(str(real_od_float(x))) != decimal.Decimal(num) / (10 ** digits):
                bad.append(("str(float) is not the numeral", num, digits))
    for (lo, hi, st) in itertools.product([0.0, -1.5, 0.1, 2.25], [0.3, 1.0, 2.26, 7.123456], ["0.1", "0.25", "0.000001", "3", "0.7"]):
        if lo > hi:
            continue
        d = FloatDistribution(lo, hi, step=float(st))
        k = (decimal.Decimal(str(hi)) - decimal.Decimal(str(lo))) // decimal.Decimal(st)
        want = float(k * decimal.Decimal(st) + decimal.Decimal(str(lo))) if (decimal.Decimal(str(hi)) - decimal.Decimal(str(lo))) % decimal.Decimal(st) != 0 else hi
        n += 1
        d2 = json_to_distribution(distribution_to_json(d))
        if d.high != want:
            wrong.append(("adjusted high is not the exact decimal grid point", lo, hi, st, d.high, want))
        elif d2 != d or json_to_distribution(distribution_to_json(d2)) != d2:
            wrong.append(("JSON round trip changes the distribution", lo, hi, st, repr(d), repr(d2)))
    # grid membership on fine grids: every grid value (as the decimal numeral a user would write, and as low + k*step computed in
    # binary floating point) and every point of the transformed box must be contained in its own distribution
    from optuna import _transform as _tr
    for (lo, hi, st) in [(0.0, 1.0, 1e-5), (0.0, 1.0, 1e-4), (-2.0, 3.0, 1e-3), (100.0, 101.0, 1e-5), (0.0, 1.0, 0.001), (1e-3, 2e-3, 1e-6)]:
        d = FloatDistribution(lo, hi, step=st)
        nk = int(round((d.high - d.low) / st))
        for k in sorted(set(list(range(0, nk + 1, max(1, nk // 997))) + [0, 1, nk - 1, nk, 56789 % (nk + 1)])):
            n += 1
            for v in (float(decimal.Decimal(str(lo)) + k * decimal.Decimal(str(st))), lo + k * st):
                if lo <= v <= d.high and not d._contains(d.to_internal_repr(v)):
                    wrong.append(("a grid value is not contained in its own distribution", lo, hi, st, v, "contained"))
                    break
            t = lo - st / 2 + (k + 0.37) * st
            if lo - st / 2 <= t <= d.high + st / 2:
                u = _tr._untransform_numerical_param(t, d, True)
                if not d._contains(d.to_internal_repr(u)):
                    wrong.append(("an untransformed point of the box is not contained", lo, hi, st, u, "contained"))
    res = {"result": "ok" if not (bad or wrong) else "mismatch", "programs": n, "queries": 0, "wall_s": time.time() - t0,
           "samples": [{"checked": "str(float(n/10^d)) == numeral; real constructor vs exact decimal arithmetic; real JSON round trip", "cases": n}]}
    if bad:
        res["failed"] = True
        res["inconclusive"] = f"short-decimal assumption violated: {bad[:3]}"
    if wrong:
        # concrete executions of the real constructor / real json: already replayed
        res["cex"] = [{"key": "stepped-float:" + w[0], "pre_replayed": True, "values": {}, "choices": [], "notes": {"case": [str(x) for x in w]}, "kind": "concrete",
                       "message": f"FloatDistribution(low={w[1]}, high={w[2]}, step={w[3]}): {w[0]}: got {w[4]}, expected {w[5]}"} for w in wrong[:5]]
    return res


# ------------------------------------------------------------------------------------------ Categorical
CHOICE_KINDS = ["none", "true", "false", "int", "real", "nan", "str_a", "str_b", "one", "one_f", "zero"]


def mk_choice(kind, tag):
    return {"none": None, "true": True, "false": False, "nan": float("nan"), "str_a": "a", "str_b": "b", "one": 1, "one_f": 1.0,
            "zero": 0}.get(kind) if kind not in ("int", "real") else (sx.sym_int(f"{tag}_i", -5, 5) if kind == "int" else sx.sym_real(f"{tag}_r"))


def make_categorical_body(n):
    def body():
        import warnings
        warnings.simplefilter("ignore")
        kinds = [sx.choose(CHOICE_KINDS, f"c{i}.kind") for i in range(n)]
        choices = [mk_choice(k, f"c{i}") for i, k in enumerate(kinds)]
        d = CategoricalDistribution(choices)
        sx.note("scenario", dict(kinds=kinds))
        conds = []
        for i, c in enumerate(choices):
            idx = d.to_internal_repr(c)
            assert P(d._contains(idx)) is True or P(d._contains(idx)), "index of a choice not contained"
            back = d.to_external_repr(idx)
            eq = od._categorical_choice_equal(back, c)
            conds.append(P(eq))                                   # maps back to a choice equal to the original
        d3 = json_to_distribution(distribution_to_json(d))
        conds.append(P(d3 == d))
        d4 = json_to_distribution(distribution_to_json(d3))
        conds.append(P(d4 == d3))
        conds.append(P(d.single()) == (n == 1))
        check_distribution_compatibility(d, d3)                     # same choices after the round trip: must not raise
        sx.reach("checked")
        return sx.all_of(conds)
    return body


CODE = [IntDistribution.__init__, IntDistribution._contains, IntDistribution.single, IntDistribution.to_internal_repr,
        IntDistribution.to_external_repr, od._adjust_int_uniform_high, FloatDistribution.__init__, FloatDistribution._contains,
        FloatDistribution.single, FloatDistribution.to_internal_repr, od._adjust_discrete_uniform_high, CategoricalDistribution.__init__,
        CategoricalDistribution.to_internal_repr, CategoricalDistribution.to_external_repr, CategoricalDistribution.__eq__,
        od._categorical_choice_equal, json_to_distribution, distribution_to_json, check_distribution_compatibility,
        _convert_old_distribution_to_new_distribution]


def classify(c):
    import re
    m = re.sub(r"at [\w\.]+:\d+: ", "", c["message"])
    return re.sub(r"[0-9]+", "N", m)[:100]


def obligations(tier):
    q = tier == "quick"
    obs = []
    for st in (list(range(1, 17)) + [64] if q else list(range(1, 65)) + [100, 128, 1000, 2 ** 20]):
        obs.append(Obligation(f"int-step{st}", make_int_body(st, False), setup_int, CODE, bounds=dict(low_high_value="unbounded z3 ints, |x|<2^53", step=st),
                              budget_s=300, classify=classify, require_reach=["checked"], describe=f"IntDistribution, step={st}"))
    for st in ([1, 3] if q else [1, 2, 3, 7]):
        obs.append(Obligation(f"int-fraction-step{st}", make_int_fraction_body(st), setup_int, CODE, bounds=dict(low_high="[-50,50]", x="non-integer real", step=st),
                              budget_s=300, classify=classify, require_reach=["checked"], describe="non-integer internal values are not contained"))
    obs.append(Obligation("int-log", make_int_body(1, True), setup_int, CODE, bounds=dict(low=">=1", step=1, log=True), budget_s=300,
                          classify=classify, require_reach=["checked"], describe="IntDistribution(log=True)"))
    obs.append(Obligation("int-deprecated", int_old_body, setup_int, CODE, budget_s=300, classify=classify, require_reach=["checked"],
                          describe="IntUniformDistribution / IntLogUniformDistribution -> equal IntDistribution, JSON round trip keeps the class"))
    obs.append(Obligation("float-plain", float_plain_body, setup_float, CODE, bounds=dict(low_high="z3 reals", value="z3 real / NaN / +-inf", log=[True, False]),
                          budget_s=300, classify=classify, require_reach=["checked", "rejected"], describe="FloatDistribution without step"))
    for st in (["0.1", "0.25", "1", "0.001", "2.5"] if q else ["0.1", "0.25", "1", "0.001", "2.5", "0.000001", "3", "0.7", "0.05", "100"]):
        obs.append(Obligation(f"float-step-{st}", make_float_step_body(st), setup_dec, CODE, bounds=dict(low_high="n/10^6, |n|<=10^12", step=st),
                              budget_s=300, classify=classify, require_reach=["checked"], describe=f"stepped FloatDistribution, step={st}"))
    obs.append(Obligation("decimal-shim-validation", None, None, [], custom=decimal_shim_validation,
                          describe="short-decimal assumption + real constructor vs exact decimal arithmetic on concrete numerals"))
    from harness import c10
    obs.append(Obligation("transform-roundtrip", c10.transform_roundtrip_body, c10.setup_transform01, CODE + [c10.tr._SearchSpaceTransform.transform, c10.tr._SearchSpaceTransform.untransform],
                          bounds=dict(kinds=6, transform_0_1=[True, False]), budget_s=600, classify=classify, require_reach=["roundtrip"],
                          describe="untransform(transform(cfg)) == cfg for configurations on the grid, incl. narrow ranges at large magnitude (shared with C10)"))
    for st in ([2, 3] if q else [1, 2, 3, 5, 7]):
        obs.append(Obligation(f"box-int-step{st}", c10.make_int_kernel_body(st, False), c10.setup_kernels, CODE + [c10.tr._untransform_numerical_param],
                              bounds=dict(low_high="z3 ints, |x|<=2^40", point="ANY z3 real", step=st), budget_s=600, classify=classify,
                              require_reach=["untransformed"], describe=f"every point of the transformed box of IntDistribution(step={st}) maps back into the domain (shared with C10)"))
    for n in ([1, 2, 3] if q else [1, 2, 3, 4, 5]):
        obs.append(Obligation(f"categorical-{n}", make_categorical_body(n), setup_float, CODE, bounds=dict(choices=n, kinds=CHOICE_KINDS), shard_depth=3,
                              budget_s=900, classify=classify, require_reach=["checked"], describe=f"CategoricalDistribution with {n} choices from the type lattice"))
    return obs
