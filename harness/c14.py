"""C14 — exhaustive samplers visit every point of a finite space exactly once, then stop (DESIGN.md §3 C14)."""
from __future__ import annotations

import optuna
from optuna.samplers import BruteForceSampler, GridSampler
from optuna.samplers import _brute_force as bf
from optuna.storages import InMemoryStorage, JournalStorage
from optuna.trial import TrialState, create_trial

import symex as sx
from symex import Obligation
from stubs.journal_list import ListBackend

META = {
    "level": "exploration",
    "exhaustive": True,
    "explanation": (
        "Bounded symbolic execution of the real BruteForceSampler (+_TreeNode) and GridSampler inside the real Study.optimize loop. "
        "Define-by-run program shapes are enumerated up to a size bound; inside a shape every rng.choice(keys, p) returns an arbitrary "
        "key with positive weight (= all seeds), each leaf's outcome (complete / caught failure / pruned) is a symbolic function of the "
        "leaf, and the run is split into several optimize() calls at symbolic points with a fresh sampler object (resume). Asserted on "
        "every path: when optimize() returns, the multiset of evaluated parameter combinations equals the set of leaves (each exactly "
        "once) and the loop stopped by itself. bruteforce-early-failure adds a transient failure before a trial's last suggest call (two known "
        "findings are re-derived there). NOTE: every fork here is a finite structural choice (shape, rng draw, outcome, split point); "
        "no numeric input is symbolic, so the z3 solver has nothing to decide - this is an exhaustive bounded case split performed by the "
        "symbolic executor's path enumerator over the real code, reported at level 'exploration' (exhaustive within the bounds)."
    ),
    "assumptions": ["sampler RNG replaced by a stub honouring the contract of RandomState.choice (element with p>0)",
                    "objectives are deterministic functions of the parameters (except in bruteforce-early-failure, where one trial of the run, chosen "
                    "by number, fails before it has drawn all its parameters)",
                    "interruptions lie strictly inside the run (calling optimize again after the sampler stopped the study is a fresh run)"],
    "outside": ["n_jobs>1 / parallel workers", "stateful objectives", "spaces beyond the size bound"],
}


class RNG:
    """every draw is an explorer choice among the elements with positive probability"""

    def __init__(self):
        self.n = 0

    def choice(self, a, p=None):
        a = list(a)
        self.n += 1
        idx = [i for i in range(len(a)) if p is None or p[i] > 0]
        assert idx, "choice over empty support"
        k = 0 if len(idx) == 1 else sx.choose(len(idx), f"rng{self.n}/{len(idx)}")
        return a[idx[k]]

    def shuffle(self, x):
        pass

    def seed(self, s=None):
        pass


class Lazy:
    def __init__(self, rng):
        self.rng = rng

    def seed(self, s=None):
        pass


# ---------------------------------------------------------------------------------------------- program shapes
# node = (name, kind, spec, children) ; children: dict value -> node | None (leaf) ; or a single node shared by all values
def I(name, lo, hi, children=None, step=1):  # noqa: E743
    return (name, "int", (lo, hi, step), children)


def F(name, lo, hi, step, children=None):
    return (name, "float", (lo, hi, step), children)


def C(name, choices, children=None):
    return (name, "cat", tuple(choices), children)


SHAPES = {
    "cond-5": I("x", 0, 1, {0: I("y", 0, 2), 1: C("z", ["a", "b"])}),
    "mixed-5": C("c", ["a", "b", "c"], {"a": None, "b": F("f", 0.0, 1.0, 0.5), "c": I("k", 1, 1)}),
    "flat-4": I("x", 0, 1, I("y", 0, 1)),
    "deep-4": I("a", 0, 1, {0: I("b", 0, 1, {0: I("c", 0, 1), 1: None}), 1: None}),
    "single-root-3": I("x", 3, 3, F("y", 0.0, 0.5, 0.25)),
    "stepped-int-4": I("x", 0, 6, None, step=2),
    "cond-8": C("m", ["p", "q"], {"p": I("u", 0, 1, I("v", 0, 1)), "q": F("w", -1.0, 0.5, 0.5)}),
    "none-bool-cat-4": C("t", [None, True, 1.5, "s"]),
    "decimal-steps-5": C("kind", ["lin", "tree"], {"lin": F("x", 0.0, 0.2, 0.1), "tree": F("y", 0.2, 0.4, 0.2)}),
    "decimal-step-4": F("x", 0.0, 0.3, 0.1),
    "decimal-step-3": F("y", 0.2, 0.6, 0.2),
}


def values_of(node):
    name, kind, spec, _ = node
    if kind == "int":
        return list(range(spec[0], spec[1] + 1, spec[2]))
    if kind == "float":
        lo, hi, st = spec
        out, v = [], lo
        while v <= hi + 1e-12:
            out.append(round(v, 10))
            v += st
        return out
    return list(spec)


def child_of(node, v):
    ch = node[3]
    if ch is None:
        return None
    if isinstance(ch, dict):
        return ch[v]
    return ch


def leaves(node, prefix=()):
    out = []
    for v in values_of(node):
        ch = child_of(node, v)
        p = prefix + ((node[0], v),)
        if ch is None:
            out.append(p)
        else:
            out += leaves(ch, p)
    return out


class Boom(Exception):
    """the objective's own failure (caught by optimize); anything else that escapes comes from the sampler"""


def depth_of(node):
    if node is None:
        return 0
    return 1 + max(depth_of(child_of(node, v)) for v in values_of(node))


def run_program(trial, node, fail_after=None):
    path = ()
    while node is not None:
        if fail_after is not None and len(path) == fail_after:
            raise Boom(f"objective fails after {fail_after} suggest calls, before its next parameter")
        name, kind, spec, _ = node
        if kind == "int":
            v = trial.suggest_int(name, spec[0], spec[1], step=spec[2])
        elif kind == "float":
            v = trial.suggest_float(name, spec[0], spec[1], step=spec[2])
            v = round(v, 10)
        else:
            v = trial.suggest_categorical(name, list(spec))
        path += ((name, v),)
        node = child_of(node, v)
    return path


def make_bruteforce_body(shape_names, max_splits, outcomes=("complete", "fail", "pruned"), strict=False):
    def body():
        sname = sx.choose(shape_names, "shape")
        root = SHAPES[sname]
        L = leaves(root)
        rng = RNG()
        outcome = {}
        evaluated = []

        def objective(trial):
            leaf = run_program(trial, root)
            evaluated.append(leaf)
            if leaf not in outcome:
                outcome[leaf] = sx.choose(list(outcomes), f"outcome{L.index(leaf) if leaf in L else 'X'}")
            if outcome[leaf] == "fail":
                raise ValueError("fails deterministically for this combination")
            if outcome[leaf] == "pruned":
                raise optuna.TrialPruned()
            return float(len(evaluated))

        def new_sampler():
            s = BruteForceSampler(seed=0, avoid_premature_stop=strict)
            s._rng = Lazy(rng)
            return s
        study = optuna.create_study(sampler=new_sampler(), storage=InMemoryStorage())
        done = 0
        splits = []
        for sp in range(max_splits):
            if done >= len(L) - 1:
                break
            k = sx.choose(len(L) - done, f"split{sp}")     # 0 .. remaining-1 trials in this call: strictly inside the run
            splits.append(k)
            if k:
                study.optimize(objective, n_trials=k, catch=(ValueError,))
                done += k
                study.sampler = new_sampler()                 # resume with a fresh sampler object
        sx.note("scenario", dict(shape=sname, splits=splits, leaves=len(L)))
        study.optimize(objective, n_trials=len(L) + 2 - done, catch=(ValueError,))
        sx.reach("finished")
        assert sorted(map(repr, evaluated)) == sorted(map(repr, L)), \
            f"not every combination exactly once: evaluated {sorted(map(repr, evaluated))} vs leaves {sorted(map(repr, L))}"
        assert len(study.get_trials(deepcopy=False)) == len(L), f"did not stop by itself: {len(study.get_trials(deepcopy=False))} trials for {len(L)} leaves"
        return True
    return body


def make_orphan_prefix_body(shape_names):
    """the run is interrupted inside a trial that has drawn only its FIRST parameter, and finished trials have already gone through
    that same value and drawn the next parameter (so the tree knows the node is an inner node); the trial stays RUNNING for good. The
    resumed run (default stop criterion) must still evaluate every combination exactly once and stop."""
    def body():
        sname = sx.choose(shape_names, "shape")
        root = SHAPES[sname]
        L = leaves(root)
        rng = RNG()
        evaluated = []

        def objective(trial):
            leaf = run_program(trial, root)
            evaluated.append(leaf)
            return float(len(evaluated))

        def new_sampler():
            s = BruteForceSampler(seed=0)
            s._rng = Lazy(rng)
            return s
        study = optuna.create_study(sampler=new_sampler(), storage=InMemoryStorage())
        k = 1 + sx.choose(len(L) - 1, "trials_before_the_interruption")
        study.optimize(objective, n_trials=k)
        t = study.ask()
        name, kind, spec, _ = root
        v = (t.suggest_int(name, spec[0], spec[1], step=spec[2]) if kind == "int" else
             round(t.suggest_float(name, spec[0], spec[1], step=spec[2]), 10) if kind == "float" else t.suggest_categorical(name, list(spec)))
        deeper = [lf for lf in evaluated if lf[0] == (name, v) and len(lf) > 1]
        if not deeper:
            sx.cur().abort()          # outside the case described above (the documented loose stop criterion may skip the branch)
        study.sampler = new_sampler()
        sx.note("scenario", dict(shape=sname, trials_before=k, orphan_prefix={name: v}, leaves=len(L)))
        study.optimize(objective, n_trials=len(L) + 3 - k)
        sx.reach("resumed")
        assert sorted(map(repr, evaluated)) == sorted(map(repr, L)), \
            f"after an interrupted trial left RUNNING with prefix {{{name!r}: {v!r}}}: evaluated {sorted(map(repr, evaluated))} vs combinations {sorted(map(repr, L))}"
        assert len(study.get_trials(deepcopy=False)) == len(L) + 1, f"did not stop by itself: {len(study.get_trials(deepcopy=False))} trials"
        return True
    return body


def make_early_failure_body(shape_names):
    """one trial of the run fails BEFORE it has drawn all its parameters (an exception between two suggest calls, or before the first):
    it has evaluated no combination, so every combination must still be evaluated exactly once by the other trials, the sampler must
    not raise, and the run must stop by itself"""
    def body():
        sname = sx.choose(shape_names, "shape")
        root = SHAPES[sname]
        L = leaves(root)
        rng = RNG()
        evaluated = []
        which = sx.choose(len(L), "failing_trial_number")
        after = sx.choose(depth_of(root), "fails_after_n_suggests")
        early = []

        def objective(trial):
            if trial.number == which:
                try:
                    leaf = run_program(trial, root, fail_after=after)
                except Boom:
                    early.append(dict(trial.params))
                    raise
            else:
                leaf = run_program(trial, root)
            evaluated.append(leaf)
            return float(len(evaluated))
        s = BruteForceSampler(seed=0)
        s._rng = Lazy(rng)
        study = optuna.create_study(sampler=s, storage=InMemoryStorage())
        study.optimize(objective, n_trials=len(L) + 3, catch=(Boom,))
        sx.note("scenario", dict(shape=sname, failing_trial=which, fails_after=after, partial_params=early[:1], leaves=len(L)))
        if not early:
            sx.cur().abort()              # the chosen trial reached a leaf before the failure point: not an early failure
        sx.reach("early-failure")
        assert len(set(map(repr, evaluated))) == len(evaluated), f"a combination was evaluated twice: {sorted(map(repr, evaluated))}"
        missing = [lf for lf in L if lf not in evaluated]
        extra = [lf for lf in evaluated if lf not in L]
        assert not extra, f"evaluated something that is not a combination of the program: {extra}"
        below = [lf for lf in missing if all(dict(lf).get(k) == v or (isinstance(v, float) and round(v, 10) == dict(lf).get(k)) for k, v in early[0].items())]
        assert len(below) == len(missing), f"combinations NOT below the failed prefix {early[0]} were never evaluated: {missing}"
        assert not missing, f"combinations below the failed trial's partial prefix {early[0]} were never evaluated: {missing}"
        assert len(study.get_trials(deepcopy=False)) == len(L) + 1, f"did not stop by itself: {len(study.get_trials(deepcopy=False))} trials for {len(L)} combinations + 1 failure"
        return True
    return body


# ---------------------------------------------------------------------------------------------- grid
GRIDS = {
    "2x2": {"x": [0, 1], "c": ["a", "b"]},
    "nan-inf": {"g": [0.5, float("nan"), float("inf")], "b": [None, True]},
    "single": {"x": [7], "y": [1, 2, 3]},
    "3x2": {"x": [-1.0, 0.0, 2.5], "c": ["u", "v"]},
}


def make_grid_body(grid_names, backends, max_splits):
    def body():
        gname = sx.choose(grid_names, "grid")
        space = GRIDS[gname]
        kind = sx.choose(backends, "backend")
        # a resumed run uses a new sampler object: grid ids stored in trials must denote the same points for every instance
        assert GridSampler(space)._all_grids == GridSampler(space)._all_grids or all(
            repr(a) == repr(b) for a, b in zip(GridSampler(space)._all_grids, GridSampler(space)._all_grids)), \
            "two GridSampler instances with the default seed order the grid differently"
        names = sorted(space)
        import itertools
        points = [tuple(zip(names, vals)) for vals in itertools.product(*[space[n] for n in names])]
        rng = RNG()
        outcome = {}
        evaluated = []

        def objective(trial):
            pt = tuple((n, trial.suggest_categorical(n, space[n])) for n in names)
            key = repr(pt)
            evaluated.append(key)
            if key not in outcome:
                outcome[key] = sx.choose(["complete", "fail", "pruned"], f"outcome{len(outcome)}")
            if outcome[key] == "fail":
                raise ValueError("deterministic failure")
            if outcome[key] == "pruned":
                raise optuna.TrialPruned()
            return 1.0

        def new_sampler():
            s = GridSampler(space)        # default seed: every instance must shuffle the grid identically (real RNG at construction)
            s._rng = Lazy(rng)            # later draws (rng.choice over unvisited grid ids) are explorer choices
            return s
        storage = InMemoryStorage() if kind == "inmemory" else JournalStorage(ListBackend())
        study = optuna.create_study(sampler=new_sampler(), storage=storage)
        n_pre = sx.choose([0, 1, 2], "unrelated_earlier_trials")     # shifts trial numbers: grid ids are then drawn through rng.choice
        for _ in range(n_pre):
            study.add_trial(create_trial(value=0.0))
        done = 0
        splits = []
        orphans = []
        for sp in range(max_splits):
            if done >= len(points) - 1:
                break
            k = sx.choose(len(points) - done, f"split{sp}")
            splits.append(k)
            if k:
                study.optimize(objective, n_trials=k, catch=(ValueError,))
                done += k
            if sp == 0 and sx.choose(2, "interrupted_mid_trial"):
                # the run is interrupted INSIDE a trial: the trial has its grid id and parameters but is left RUNNING for good;
                # its grid point has not been evaluated, the resumed run still owes it
                t = study.ask()
                for nme in names:
                    t.suggest_categorical(nme, space[nme])
                orphans.append(t.number)
            if k or orphans:
                study.sampler = new_sampler()
        sx.note("scenario", dict(grid=gname, backend=kind, splits=splits, n_pre=n_pre, orphans=list(orphans)))
        study.optimize(objective, n_trials=len(points) + 3 - done, catch=(ValueError,))
        sx.reach("finished")
        assert sorted(evaluated) == sorted(map(repr, points)), f"grid not visited exactly once: {sorted(evaluated)} vs {sorted(map(repr, points))} (trials left RUNNING by an interrupted run: {orphans})"
        assert len(study.get_trials(deepcopy=False)) == len(points) + n_pre + len(orphans), "did not stop by itself"
        return True
    return body


def setup(concrete):
    pass


CODE = [BruteForceSampler.sample_independent, BruteForceSampler.after_trial, BruteForceSampler._populate_tree, bf._TreeNode.expand,
        bf._TreeNode.add_path, bf._TreeNode.count_unexpanded, bf._TreeNode.sample_child, bf._enumerate_candidates,
        GridSampler.before_trial, GridSampler.sample_independent, GridSampler.after_trial, GridSampler._get_unvisited_grid_ids,
        GridSampler._same_search_space, GridSampler._grid_value_equal, optuna.study._optimize._optimize_sequential]


def classify(c):
    import re
    sc = c.get("notes", {}).get("scenario", {})
    m = re.sub(r"at [\w\.]+:\d+: ", "", c["message"])
    return f"{sc.get('shape', sc.get('grid'))}|{sc.get('backend', '')}|{m.split(':')[0][:60]}"


def classify_early(c):
    sc = c.get("notes", {}).get("scenario", {})
    m = c["message"]
    kind = ("sampler-raises-param_name-mismatch" if "param_name mismatch" in m else "combinations-below-failed-prefix-never-evaluated" if "combinations below the failed" in m else
            "does-not-stop" if "did not stop" in m else m[:60])
    # the run's first trial fails / a later one; after 0 suggests / after >= 1
    return f"bruteforce:early-failure:{kind}"


def obligations(tier):
    q = tier == "quick"
    obs = []
    small = ["flat-4", "deep-4", "single-root-3", "stepped-int-4", "none-bool-cat-4", "decimal-step-3", "decimal-step-4"]
    for s in small:
        obs.append(Obligation(f"bruteforce-{s}", make_bruteforce_body([s], 1 if q else 2), setup, CODE,
                              bounds=dict(shape=s, leaves=len(leaves(SHAPES[s])), splits=1 if q else 2, outcomes=3),
                              shard_depth=4, budget_s=900, classify=classify, require_reach=["finished"],
                              describe=f"brute force over program shape {s}; all rng draws, all leaf outcomes, all interruption points"))
    for s in ["cond-5", "mixed-5", "decimal-steps-5"]:
        obs.append(Obligation(f"bruteforce-{s}", make_bruteforce_body([s], 1, outcomes=("complete", "fail") if q else ("complete", "fail", "pruned")), setup, CODE,
                              bounds=dict(shape=s, leaves=5, splits=1, outcomes=2 if q else 3),
                              shard_depth=5, budget_s=1500, classify=classify, require_reach=["finished"],
                              describe=f"brute force over conditional shape {s}"))
    if not q:
        obs.append(Obligation("bruteforce-cond-8", make_bruteforce_body(["cond-8"], 1, outcomes=("complete",)), setup, CODE,
                              bounds=dict(shape="cond-8", leaves=7, splits=1, outcomes=1), shard_depth=6, budget_s=3000, classify=classify,
                              require_reach=["finished"], describe="7-leaf conditional space"))
    obs.append(Obligation("bruteforce-strict", make_bruteforce_body(["flat-4", "deep-4", "single-root-3"] if q else ["flat-4", "deep-4", "single-root-3", "cond-5", "mixed-5"], 1, strict=True), setup, CODE,
                          bounds=dict(shapes=3 if q else 5, splits=1, outcomes=3, avoid_premature_stop=True),
                          shard_depth=5, budget_s=1500, classify=classify, require_reach=["finished"],
                          describe="BruteForceSampler(avoid_premature_stop=True) in a sequential run: same statement"))
    obs.append(Obligation("bruteforce-orphan-prefix", make_orphan_prefix_body(["flat-4", "deep-4", "cond-5"] if q else ["flat-4", "deep-4", "cond-5", "cond-8", "single-root-3"]), setup, CODE,
                          bounds=dict(shapes=3 if q else 5, orphan="one RUNNING trial that drew only its first parameter, value already expanded by finished trials"),
                          shard_depth=4, budget_s=1500, classify=classify, require_reach=["resumed"],
                          describe="interrupted mid-trial (prefix drawn, left RUNNING), resumed with a fresh sampler: full coverage exactly once, stops"))
    obs.append(Obligation("bruteforce-early-failure", make_early_failure_body(["flat-4", "deep-4", "cond-5", "mixed-5"] if q else ["flat-4", "deep-4", "cond-5", "mixed-5", "cond-8", "single-root-3"]),
                          setup, CODE, bounds=dict(shapes=4 if q else 6, early_failures_per_run=1, failing_trial="any", failure_point="before any suggest call that is not the last of its path"),
                          shard_depth=4, budget_s=1500, classify=classify_early, require_reach=["early-failure"],
                          describe="a trial fails before it has drawn all its parameters: the other trials still cover every combination exactly once, no sampler error, the run stops"))
    obs.append(Obligation("grid", make_grid_body(["2x2", "nan-inf", "single"] if q else list(GRIDS), ["inmemory", "journal"], 1 if q else 2), setup, CODE,
                          bounds=dict(grids=3 if q else 4, backends=["inmemory", "journal(list backend, real json)"], earlier_trials=[0, 1, 2]),
                          shard_depth=5, budget_s=1500, classify=classify, require_reach=["finished"],
                          describe="GridSampler: each grid point exactly once then stop, incl. NaN/inf/None/bool grid values on a serialising backend"))
    return obs
