"""C16 — pruners never prune what their contract protects (DESIGN.md §3 C16)."""
from __future__ import annotations

import math

import optuna
from optuna.pruners import _percentile as pp, _patient as ppat, _successive_halving as psh, _threshold as pth, _hyperband as phb
from optuna.pruners import (PercentilePruner, MedianPruner, SuccessiveHalvingPruner, HyperbandPruner, PatientPruner,
                            ThresholdPruner, NopPruner)
from optuna.storages import InMemoryStorage
from optuna.trial import TrialState, create_trial

import symex as sx
from symex import Obligation
from symex.proxies import SymBool

META = {
    "level": "other",
    "explanation": (
        "Bounded symbolic execution of the real prune() of every pruner except Wilcoxon on symbolic histories: pruner parameters "
        "are z3 ints/reals, intermediate values z3 reals or forked NaN, steps forked over small ranges, trial states forked; NumPy "
        "order statistics run through the object-array shim. On every feasible path z3 discharges the contract clauses of C16 "
        "(warm-up/start-up/patience gates, 'strictly better than everything reported so far is never pruned', threshold iff, "
        "nop never, Hyperband bracket = f(study name, trial number)). Integer gates are additionally proved for unbounded steps."
    ),
    "assumptions": ["np in optuna.pruners._percentile/_patient rebound to the object-array shim (validated against real NumPy in the "
                    "obligation shim-validation); math.isnan/float shimmed to accept symbolic finite reals",
                    "values compared over exact reals (percentile linear interpolation is the only rounding operation)"],
    "outside": ["the numeric value of SciPy's Wilcoxon p-value (arbitrary in the Wilcoxon obligation)", "SuccessiveHalving with bootstrap_count>0", "more than 3 other trials / 4 steps"],
}


def setup(concrete):
    if not concrete:
        from stubs.npshim import npshim
        from stubs.shims import shim_frozen_trial, shim_tell
        pp.np = npshim
        pp.math = sx.mathshim
        pp.float = sx.float_shim
        ppat.np = npshim
        psh.math = sx.mathshim
        pth.math = sx.mathshim
        pth.float = sx.float_shim
        shim_frozen_trial()
        shim_tell()


def P(r):
    """pruner result as a property term: True iff pruned"""
    if isinstance(r, SymBool):
        return r
    return bool(r)


def is_nan(v):
    return isinstance(v, float) and math.isnan(v)


def better(a, b, maximize):
    return (a > b) if maximize else (a < b)


def build_history(study, n_other, steps_range, tag, states=("COMPLETE", "PRUNED", "RUNNING", "FAIL"), kinds=("finite", "nan"),
                  nonempty=False):
    """other trials with symbolic states / reported steps / values; returns list of reported values"""
    reported = []
    n_complete = 0
    for i in range(n_other):
        st = sx.choose(list(states), f"{tag}o{i}.state") if len(states) > 1 else states[0]
        masks = list(range(1 if nonempty else 0, 1 << len(steps_range)))
        mask = sx.choose(masks, f"{tag}o{i}.steps")
        iv = {}
        for b, s in enumerate(steps_range):
            if mask >> b & 1:
                iv[s] = sx.sym_float(f"{tag}o{i}_s{s}", kinds)
                reported.append(iv[s])
        state = TrialState[st]
        if state == TrialState.COMPLETE:
            n_complete += 1
        study.add_trial(create_trial(state=state, value=0.0 if state == TrialState.COMPLETE else None, intermediate_values=iv))
    return reported, n_complete


def current_trial(study, steps_range, tag, kinds=("finite", "nan"), nonempty=True, latest_kinds=None):
    mask = sx.choose(1 << len(steps_range), f"{tag}cur.steps")
    if nonempty and mask == 0:
        sx.cur().abort()
    iv = {}
    last = max([s for b, s in enumerate(steps_range) if mask >> b & 1], default=None)
    for b, s in enumerate(steps_range):
        if mask >> b & 1:
            iv[s] = sx.sym_float(f"{tag}cur_s{s}", latest_kinds if (latest_kinds and s == last) else kinds)
    t = create_trial(state=TrialState.RUNNING, intermediate_values=iv)
    t.number = len(study.get_trials(deepcopy=False))
    t._trial_id = t.number
    return t


def strictly_better_premise(cur_vals, other_vals, maximize):
    """every reported value of the current trial is strictly better than every value reported by any other trial"""
    if any(is_nan(v) for v in cur_vals):
        return False
    conds = []
    for c in cur_vals:
        for o in other_vals:
            if is_nan(o):
                continue
            conds.append(better(c, o, maximize))
    return sx.all_of(conds) if conds else True


# ------------------------------------------------------------------------------------------ percentile / median
def make_percentile_body(n_other, other_steps, cur_steps, qs, states, kinds, intervals=(1, 2, 3), nonempty_others=False):
    def body():
        maximize = bool(sx.choose(2, "maximize"))
        kind = sx.choose(["percentile", "median"], "pruner")
        n_startup = sx.sym_int("n_startup", 0, 4)
        n_warmup = sx.sym_int("n_warmup", 0, 6)
        interval = sx.choose(list(intervals), "interval")
        n_min = sx.sym_int("n_min_trials", 1, 3)
        study = optuna.create_study(direction="maximize" if maximize else "minimize", storage=InMemoryStorage())
        if kind == "percentile":
            q = sx.sym_real("q", 0, 100) if qs == "symbolic" else sx.choose(list(qs), "q")
            pruner = PercentilePruner(q, n_startup_trials=n_startup, n_warmup_steps=n_warmup, interval_steps=interval, n_min_trials=n_min)
        else:
            pruner = MedianPruner(n_startup_trials=n_startup, n_warmup_steps=n_warmup, interval_steps=interval, n_min_trials=n_min)
        other_vals, n_complete = build_history(study, n_other, other_steps, "", states=states, kinds=kinds, nonempty=nonempty_others)
        cur = current_trial(study, cur_steps, "", kinds=kinds)
        step = max(cur.intermediate_values)
        sx.note("scenario", dict(pruner=kind, maximize=maximize, interval=interval, cur_steps=sorted(cur.intermediate_values),
                                 others=[(t.state.name, sorted(t.intermediate_values)) for t in study.get_trials(deepcopy=False)]))
        r = P(pruner.prune(study, cur))
        sx.reach("prune-called")
        if r is not False:
            sx.reach("prune-possible")
        gate = sx.any_of([step < n_warmup, n_complete < n_startup, n_complete == 0])
        prem = strictly_better_premise(list(cur.intermediate_values.values()), other_vals, maximize)
        return sx.all_of([sx.implies(gate, sx.not_(r)), sx.implies(prem, sx.not_(r))])
    return body


# ------------------------------------------------------------------------------------------ threshold
def threshold_body():
    has_lower = bool(sx.choose(2, "has_lower"))
    has_upper = bool(sx.choose(2, "has_upper"))
    if not (has_lower or has_upper):
        sx.cur().abort()
    lower = sx.sym_real("lower") if has_lower else None
    upper = sx.sym_real("upper") if has_upper else None
    if has_lower and has_upper:
        sx.assume(lower <= upper)
    n_warmup = sx.sym_int("n_warmup", 0, 6)
    interval = sx.choose([1, 2, 3], "interval")
    pruner = ThresholdPruner(lower=lower, upper=upper, n_warmup_steps=n_warmup, interval_steps=interval)
    study = optuna.create_study(storage=InMemoryStorage())
    cur = current_trial(study, [0, 1, 2, 3, 5], "", kinds=("finite",), latest_kinds=("finite", "nan", "inf"))
    step = max(cur.intermediate_values)
    latest = cur.intermediate_values[step]
    sx.note("scenario", dict(steps=sorted(cur.intermediate_values), interval=interval))
    r = P(pruner.prune(study, cur))
    sx.reach("prune-called")
    # when is the value checked: at the first reported step at or after each check point warm + k*interval
    others = [s for s in cur.intermediate_values if s != step]
    c = n_warmup + ((step - n_warmup) // interval) * interval
    checked = sx.all_of([step >= n_warmup] + [s < c for s in others])
    if is_nan(latest):
        outside = True
    else:
        outside = sx.any_of(([latest < lower] if has_lower else []) + ([latest > upper] if has_upper else []))
    return sx.iff(r, sx.all_of([checked, outside]))


# ------------------------------------------------------------------------------------------ patient
class FixedPruner(optuna.pruners.BasePruner):
    def __init__(self, d):
        self.d = d

    def prune(self, study, trial):
        return self.d


def patient_body():
    maximize = bool(sx.choose(2, "maximize"))
    patience = int(sx.sym_int("patience", 0, 3))
    min_delta = sx.sym_real("min_delta", 0, None)
    wrapped = sx.choose(["none", "true", "false"], "wrapped")
    pruner = PatientPruner(None if wrapped == "none" else FixedPruner(wrapped == "true"), patience=patience, min_delta=min_delta)
    study = optuna.create_study(direction="maximize" if maximize else "minimize", storage=InMemoryStorage())
    cur = current_trial(study, [0, 1, 2, 4], "", kinds=("finite",))
    steps = sorted(cur.intermediate_values)
    vals = [cur.intermediate_values[s] for s in steps]
    sx.note("scenario", dict(steps=steps, patience=patience, wrapped=wrapped, maximize=maximize))
    r = P(pruner.prune(study, cur))
    sx.reach("prune-called")
    if len(steps) <= patience + 1:
        return sx.not_(r)       # within the patience window: fewer than patience+2 reports
    before, after = vals[:-patience - 1], vals[-patience - 1:]
    # degradation: the best score before the window (+/- min_delta) beats every score inside the window
    if maximize:
        degr = sx.any_of([sx.all_of([b - min_delta > a for a in after]) for b in before])
    else:
        degr = sx.any_of([sx.all_of([b + min_delta < a for a in after]) for b in before])
    sx.reach("window-evaluated")
    if wrapped == "none":
        return sx.iff(r, degr)
    if wrapped == "true":
        return sx.iff(r, degr)
    return sx.not_(r)


# ------------------------------------------------------------------------------------------ successive halving / hyperband
def run_trial_through_pruner(study, values, tag):
    """real flow: ask, report step by step, should_prune after each; returns (pruned_at, trial)"""
    t = study.ask()
    for s, v in enumerate(values):
        t.report(v, s)
        if t.should_prune():
            study.tell(t, state=TrialState.PRUNED)
            return s, t
    study.tell(t, 0.0)
    return None, t


def make_sh_body(n_other, n_steps, hyperband):
    def body():
        maximize = bool(sx.choose(2, "maximize"))
        rf = sx.choose([2, 3, 4], "reduction_factor")
        if hyperband:
            max_res = sx.choose([4, 9], "max_resource")
            pruner = HyperbandPruner(min_resource=1, max_resource=max_res, reduction_factor=rf)
            cfg = dict(kind="hyperband", rf=rf, max_resource=max_res)
        else:
            min_res = sx.choose([1, 2, "auto"], "min_resource")
            mesr = sx.choose([0, 1], "min_early_stopping_rate")
            pruner = SuccessiveHalvingPruner(min_resource=min_res, reduction_factor=rf, min_early_stopping_rate=mesr)
            cfg = dict(kind="sh", rf=rf, min_resource=min_res, mesr=mesr)
        study = optuna.create_study(direction="maximize" if maximize else "minimize", storage=InMemoryStorage(),
                                    pruner=pruner, sampler=optuna.samplers.RandomSampler(seed=0), study_name="s")
        other_vals = []
        fates = []
        for i in range(n_other):
            vals = [sx.sym_float(f"o{i}_s{s}", ("finite", "nan")) for s in range(n_steps)]
            pruned_at, _ = run_trial_through_pruner(study, vals, f"o{i}")
            fates.append(pruned_at)
            other_vals += vals if pruned_at is None else vals[:pruned_at + 1]
        cur_vals = [sx.sym_real(f"cur_s{s}") for s in range(n_steps)]
        prem = strictly_better_premise(cur_vals, other_vals, maximize)
        sx.assume(prem)
        sx.note("scenario", dict(cfg=cfg, maximize=maximize, other_fates=fates))
        pruned_at, _ = run_trial_through_pruner(study, cur_vals, "cur")
        sx.reach("current-ran")
        if any(f is not None for f in fates):
            sx.reach("some-other-pruned")
        assert pruned_at is None, f"trial whose every value is strictly better than everything reported so far was pruned at step {pruned_at}"
        return True
    return body


def bracket_body():
    """a trial's Hyperband bracket depends only on (study name, trial number)"""
    name = sx.choose(["s", "study-2", ""], "name")
    rf = sx.choose([2, 3], "rf")
    max_res = sx.choose([4, 27], "max_resource")
    res = []
    for variant in range(2):
        pruner = HyperbandPruner(min_resource=1, max_resource=max_res, reduction_factor=rf)
        storage = InMemoryStorage()
        if variant == 1:
            # another study shares the storage: trial ids differ from trial numbers
            other = optuna.create_study(storage=storage, study_name="unrelated")
            for _ in range(sx.choose([0, 1, 3], "id_offset")):
                other.add_trial(create_trial(value=0.0))
        study = optuna.create_study(storage=storage, pruner=pruner, study_name=name or "x", sampler=optuna.samplers.RandomSampler(seed=variant))
        ids = []
        for n in range(6):
            # different histories: states, attrs, values, reports
            st = sx.choose(["COMPLETE", "PRUNED", "FAIL"], f"v{variant}t{n}.state") if variant == 1 else "COMPLETE"
            t = study.ask()
            t.report(sx.sym_real(f"v{variant}t{n}_r"), 0)
            t.set_user_attr("k", variant)
            if len(pruner._pruners) == 0:
                pruner._try_initialization(study)
            ids.append(pruner._get_bracket_id(study, study._storage.get_trial(t._trial_id)))
            t.should_prune()
            study.tell(t, 1.0 if st == "COMPLETE" else None, state=TrialState[st])
        res.append(ids)
    sx.reach("compared")
    assert res[0] == res[1], f"bracket ids depend on the history: {res}"
    return True


def wilcoxon_gate_body():
    """WilcoxonPruner never prunes before max(2, n_startup_steps) common steps with the best trial, whatever SciPy's p-value is, and never
    prunes a trial whose average is better than the best trial's average"""
    from optuna.pruners import _wilcoxon as pw, WilcoxonPruner
    from harness.c13 import WilcoxonStub
    from stubs.npshim import npshim
    import warnings
    warnings.simplefilter("ignore")
    if not sx.cur().concrete:
        pw.np = npshim
        pw.ss = WilcoxonStub()                  # concrete replays run the real NumPy and the real SciPy test
    maximize = bool(sx.choose(2, "maximize"))
    n_startup = sx.choose([0, 1, 2, 3], "n_startup_steps")
    study = optuna.create_study(direction="maximize" if maximize else "minimize", storage=InMemoryStorage())
    nb = sx.choose([0, 2, 3], "best_steps")
    best_iv = {s_: sx.sym_real(f"best_s{s_}") for s_ in range(nb)}
    study.add_trial(create_trial(state=TrialState.COMPLETE, value=sx.sym_real("best_value"), intermediate_values=best_iv))
    cur = current_trial(study, [0, 1, 2], "", kinds=("finite",), nonempty=False)
    r = P(WilcoxonPruner(p_threshold=sx.sym_real("p_threshold", 0, 1), n_startup_steps=n_startup).prune(study, cur))
    sx.reach("prune-called")
    common = [s_ for s_ in cur.intermediate_values if s_ in best_iv]
    conds = []
    if len(common) < max(2, n_startup):
        conds.append(sx.not_(r))
    if best_iv and cur.intermediate_values:
        sb = sum(best_iv.values()) / len(best_iv)
        sc = sum(cur.intermediate_values.values()) / len(cur.intermediate_values)
        strictly_better = (sc > sb) if maximize else (sc < sb)
        conds.append(sx.implies(strictly_better, sx.not_(r)))          # the documented safety: average better than the best trial => keep
    return sx.all_of(conds) if conds else True


def _wilcoxon_gate_replay(payload):
    from harness.c13 import make_wilcoxon_replay
    return make_wilcoxon_replay(wilcoxon_gate_body, setup)(payload)


def nop_body():
    study = optuna.create_study(storage=InMemoryStorage())
    build_history(study, 1, [0], "")
    cur = current_trial(study, [0, 1], "", nonempty=False)
    sx.reach("prune-called")
    return sx.not_(P(NopPruner().prune(study, cur)))


# ------------------------------------------------------------------------------------------ integer gates, unbounded
def make_interval_gate_body(interval):
    def body():
        step = sx.sym_int("step", 0, None)
        warm = sx.sym_int("n_warmup", 0, None)
        sx.assume(step >= warm)
        n_other = sx.choose(3, "n_other_steps")
        others = []
        for i in range(n_other):
            o = sx.sym_int(f"other{i}", 0, None)
            sx.assume(o < step)
            others.append(o)
        r = pp._is_first_in_interval_step(step, others + [step], warm, interval)
        sx.reach("gate")
        k = sx.sym_int("k", 0, None)          # witness: the check point warm + k*interval governing `step`
        sx.assume((warm + k * interval <= step) & (step < warm + (k + 1) * interval))
        c = warm + k * interval
        return sx.iff(P(r), sx.all_of([o < c for o in others]))
    return body


def make_rung_body(rf):
    """SuccessiveHalving: no pruning before the rung promotion step, for unbounded steps"""
    def body():
        min_res = sx.choose([1, 2, 5], "min_resource")
        mesr = sx.choose([0, 1, 2], "mesr")
        maximize = bool(sx.choose(2, "maximize"))
        promo = min_res * rf ** mesr
        step = sx.choose(sorted({0, 1, max(0, promo - 2), max(0, promo - 1), promo, promo + 1}), "step")
        study = optuna.create_study(storage=InMemoryStorage(), direction="maximize" if maximize else "minimize")
        study.add_trial(create_trial(value=0.0, intermediate_values={0: sx.sym_real("o0")}, system_attrs={"completed_rung_0": sx.sym_real("o0r")}))
        pruner = SuccessiveHalvingPruner(min_resource=min_res, reduction_factor=rf, min_early_stopping_rate=mesr)
        t = study.ask()
        v = sx.sym_float("v", ("finite", "nan"))
        t.report(v, step)
        r = P(pruner.prune(study, study._storage.get_trial(t._trial_id)))
        sx.reach("prune-called")
        return sx.implies(step < min_res * rf ** mesr, sx.not_(r))
    return body


def shim_validation():
    import time
    from stubs import npshim as m
    t0 = time.time()
    n, bad = m.validate()
    res = {"result": "ok" if not bad else "mismatch", "programs": n, "queries": 0, "wall_s": time.time() - t0,
           "samples": [{"checked": "nanpercentile/nanmin/unique overrides vs real NumPy", "cases": n}]}
    if bad:
        res["failed"] = True
        res["inconclusive"] = f"NumPy shim disagrees with real NumPy: {bad[:3]}"
    return res


CODE = [PercentilePruner.prune, pp._get_best_intermediate_result_over_steps, pp._get_percentile_intermediate_result_over_trials,
        pp._is_first_in_interval_step, MedianPruner.__init__, ThresholdPruner.prune, PatientPruner.prune, SuccessiveHalvingPruner.prune,
        psh._get_current_rung, psh._estimate_min_resource, psh._get_competing_values, psh._is_trial_promotable_to_next_rung,
        HyperbandPruner.prune, HyperbandPruner._get_bracket_id, HyperbandPruner._try_initialization, HyperbandPruner._create_bracket_study,
        NopPruner.prune, optuna.trial.Trial.should_prune, optuna.trial.Trial.report]


def classify(c):
    import re
    sc = c.get("notes", {}).get("scenario", {})
    m = re.sub(r"at [\w\.]+:\d+: ", "", c["message"])
    m = re.sub(r"\d+", "N", m)
    return f"{sc.get('pruner', sc.get('cfg', {}).get('kind', ''))}|{m[:90]}"


def obligations(tier):
    q = tier == "quick"
    obs = [
        Obligation("percentile-gates", make_percentile_body(2, [0, 1, 2], [0, 1, 2], [25.0, 50.0], ("COMPLETE", "RUNNING") if q else ("COMPLETE", "PRUNED", "RUNNING", "FAIL"),
                                                            ("finite",), intervals=(1, 2) if q else (1, 2, 3)), setup, CODE,
                   bounds=dict(others=2, other_steps=[0, 1, 2], cur_steps="subsets of {0,1,2}", n_startup="0..4", n_warmup="0..6",
                               n_min_trials="1..3", percentile=[25, 50], values="finite z3 reals"),
                   shard_depth=5, budget_s=600, classify=classify, require_reach=["prune-called", "prune-possible"],
                   describe="start-up / warm-up gates of Percentile/Median; params z3 ints, values z3 reals, trial states forked"),
        Obligation("percentile-best-never-pruned", make_percentile_body(2, [0, 1], [0, 1] if q else [0, 1, 2], [0.0, 50.0, 100.0] if q else [0.0, 25.0, 50.0, 90.0, 100.0],
                                                                        ("COMPLETE",), ("finite", "nan"), intervals=(1,), nonempty_others=True), setup, CODE,
                   bounds=dict(others=2, other_steps=[0, 1], values="z3 reals or NaN", states="COMPLETE"),
                   shard_depth=5, budget_s=600, classify=classify, require_reach=["prune-called", "prune-possible"],
                   describe="a trial strictly better than everything reported is never pruned; NaN anywhere"),
        Obligation("percentile-symbolic-q", make_percentile_body(2, [0], [0, 1], "symbolic", ("COMPLETE",), ("finite",), intervals=(1,), nonempty_others=True), setup, CODE,
                   bounds=dict(others=2, other_steps=[0], cur_steps="subsets of {0,1}", percentile="z3 real in [0,100]"),
                   shard_depth=4, budget_s=600, classify=classify, require_reach=["prune-called", "prune-possible"],
                   describe="same with the percentile itself a z3 real"),
        Obligation("threshold", threshold_body, setup, CODE, bounds=dict(steps="subsets of {0,1,2,3,5}", interval=[1, 2, 3], n_warmup="0..6"),
                   shard_depth=3, budget_s=300, classify=classify, require_reach=["prune-called"],
                   describe="ThresholdPruner prunes iff the value is checked and is NaN or outside [lower, upper]"),
        Obligation("patient", patient_body, setup, CODE, bounds=dict(steps="subsets of {0,1,2,4}", patience="0..3", min_delta=">=0 real"),
                   shard_depth=3, budget_s=300, classify=classify, require_reach=["prune-called", "window-evaluated"],
                   describe="PatientPruner: never within the patience window, and only on degradation across it"),
        Obligation("successive-halving", make_sh_body(2, 2 if q else 3, False), setup, CODE,
                   bounds=dict(others=2, steps=2 if q else 3, reduction_factor=[2, 3, 4], min_resource=[1, 2, "auto"], mesr=[0, 1]),
                   shard_depth=5, budget_s=900, classify=classify, require_reach=["current-ran", "some-other-pruned"],
                   describe="real ask/report/should_prune flow; a trial strictly better than everything reported is never pruned"),
        Obligation("hyperband", make_sh_body(2, 2 if q else 3, True), setup, CODE,
                   bounds=dict(others=2, steps=2 if q else 3, reduction_factor=[2, 3, 4], max_resource=[4, 9]),
                   shard_depth=5, budget_s=900, classify=classify, require_reach=["current-ran"],
                   describe="same through HyperbandPruner and its bracket studies"),
        Obligation("hyperband-bracket", bracket_body, setup, CODE, bounds=dict(trials=6, names=3), shard_depth=4, budget_s=300,
                   classify=classify, require_reach=["compared"], describe="bracket id is a function of (study name, trial number) only"),
        Obligation("wilcoxon-gates", wilcoxon_gate_body, setup, CODE, bounds=dict(n_startup_steps=[0, 1, 2, 3], best_steps=[0, 2, 3], cur_steps="subsets of {0,1,2}",
                                                                                 p_value="arbitrary (uninterpreted)"),
                   shard_depth=3, budget_s=600, classify=classify, require_reach=["prune-called"],
                   describe="WilcoxonPruner: start-up gate and the average-is-best safety, for an arbitrary p-value",
                   replay_custom=_wilcoxon_gate_replay),
        Obligation("nop", nop_body, setup, CODE, budget_s=120, classify=classify, require_reach=["prune-called"], describe="NopPruner never prunes"),
        Obligation("shim-validation", None, None, [], custom=shim_validation, describe="NumPy shim overrides vs real NumPy on concrete inputs"),
    ]
    for iv in ([1, 2, 3, 5] if q else [1, 2, 3, 4, 5, 7, 10, 16]):
        obs.append(Obligation(f"interval-gate-{iv}", make_interval_gate_body(iv), setup, CODE, bounds=dict(step="unbounded int", n_warmup="unbounded int", interval=iv, other_steps="<=2 unbounded"),
                              budget_s=300, classify=classify, require_reach=["gate"],
                              describe=f"_is_first_in_interval_step for unbounded symbolic step/warm-up, interval={iv}"))
    for rf in [2, 3, 4]:
        obs.append(Obligation(f"sh-rung-gate-rf{rf}", make_rung_body(rf), setup, CODE, bounds=dict(rf=rf, min_resource=[1, 2, 5], mesr=[0, 1, 2]),
                              budget_s=300, classify=classify, require_reach=["prune-called"],
                              describe="SuccessiveHalving never prunes before min_resource*rf^mesr"))
    if not q:
        obs.append(Obligation("percentile-3others", make_percentile_body(3, [0, 1], [0, 1, 2], [25.0, 50.0, 75.0], ("COMPLETE", "RUNNING"), ("finite", "nan"), intervals=(1, 2)), setup, CODE,
                              bounds=dict(others=3, other_steps=[0, 1], cur_steps="subsets of {0,1,2}", values="z3 reals or NaN"),
                              shard_depth=6, budget_s=3000, classify=classify, require_reach=["prune-called", "prune-possible"],
                              describe="larger histories, all clauses"))
    return obs
