"""C07 — the journal file is an intact, totally ordered log under concurrent writers (DESIGN.md §3 C07)."""
from __future__ import annotations

import builtins
import json
import time
import types

import z3

import optuna.storages.journal._file as jf

import symex as sx
from symex import Obligation, core
from symex.proxies import SymInt, SymBool

META = {
    "level": "model_checking",
    "explanation": (
        "(a) Reader under adversarial growth (symbolic execution): the real JournalFileBackend.read_logs runs against a fake file whose visible "
        "length at stat() and before every line read is a non-decreasing z3 int (append-only growth by other writers, partial lines are abstract "
        "fragments with symbolic length), starting from the offset cache left by an earlier read on an earlier prefix; asserted: the result is "
        "exactly records k..j in order for some j covering every record complete when the call began, never a partial record, and afterwards "
        "every cached offset equals the true byte offset. (b) Lock protocol (bounded model checking): the call-site automaton of the real "
        "append_logs with either lock class is extracted from the source on every run (scripted os/time/open whose outcomes are explorer forks; "
        "stat().st_mtime results are opaque objects whose comparisons are environment events; quotient by (call, call site, which earlier stat "
        "results the code still keeps in local variables), rejected on any nondeterministic merge), K copies are composed in z3 with a "
        "file-system/clock model (bit-vector BMC over macro steps, interleaving = symbolic schedule vector) and z3 proves for all schedules "
        "up to the depth: never two processes hold the lock at once, release() never raises, no process leaves the extracted automaton; a "
        "reachability witness (everybody finishes) must be sat. Satisfying schedules are replayed on the real code (threads stepped through "
        "an in-memory file system)."
    ),
    "assumptions": [
        "operating assumption of the lease-style lock: a live holder releases within hold_bound of creating its lock file (10 s in the k2/k2r2/k3 "
        "obligations, the whole grace period of 30 s in the longhold obligations) and a process inside append_logs that does not hold the lock is "
        "never suspended longer than step_delay (5-10 s) between two consecutive shared file-system calls; grace_period = 30 s; "
        "clock reads that follow a shared call happen within the same model tick (5 s)",
        "POSIX semantics of symlink / open(O_CREAT|O_EXCL) (atomic, EEXIST), rename (atomic, ENOENT), stat().st_mtime identifies the lock instance",
        "a proper fragment of a record line is never valid JSON; appends are whole records (established by (b)) plus at most one in-flight record",
    ],
    "outside": ["Python-level pre-emption inside one backend object shared by threads (C03)", "non-POSIX file systems",
                "processes suspended for longer than the grace period (a waiter paused > 30 s between its stat and its expiry check force-releases "
                "a fresh lock: found and replayed during development, inherent to the lease design, see DESIGN.md)"],
}

# ---------------------------------------------------------------------------------------------- (a) reader under growth
M_DEFAULT = 3


class World:
    def __init__(self, begin, final_len):
        self.n = 0
        self.vis = begin
        self.final_len = final_len

    def advance(self):
        self.n += 1
        if sx.cur().concrete:
            nv = sx.sym_int(f"vis{self.n}")
            sx.assume(self.vis <= nv <= self.final_len)
            self.vis = nv
            return nv
        nv = sx.sym_int(f"vis{self.n}")
        sx.cur().add((nv.e >= (self.vis.e if isinstance(self.vis, SymInt) else self.vis)))
        sx.cur().add(nv.e <= self.final_len)
        self.vis = nv
        return nv


class SymLine:
    """a fragment of a record whose length is symbolic (partial line, or the tail chunk of one)"""

    def __init__(self, n, complete, rec=None, from_line_start=False):
        self.n = n
        self.complete = complete
        self.rec = rec
        self.from_line_start = from_line_start

    def endswith(self, b):
        assert b == b"\n"
        return self.complete


class SymSize:
    """int-like symbolic size supporting the arithmetic read_logs does with it"""

    def __init__(self, e):
        self.e = e

    @staticmethod
    def _z(o):
        if isinstance(o, SymSize):
            return o.e
        if isinstance(o, SymInt):
            return o.e
        return o

    def __isub__(self, o):
        return SymSize(self.e - SymSize._z(o))

    __sub__ = __isub__

    def __add__(self, o):
        return SymSize(self.e + SymSize._z(o))

    __radd__ = __add__

    def __lt__(self, o):
        return bool(SymBool(self.e < SymSize._z(o)))

    def __eq__(self, o):
        return bool(SymBool(self.e == SymSize._z(o)))

    def __hash__(self):
        return 0


def make_reader_body(M):
    RECS = [{"op_code": i, "w": "x" * (i % 2)} for i in range(M + 1)]
    LINES = [(json.dumps(r, separators=(",", ":")) + "\n").encode() for r in RECS]
    FINAL = b"".join(LINES)
    OFFS = [0]
    for ln in LINES:
        OFFS.append(OFFS[-1] + len(ln))
    state = {}

    class JSONShim:
        JSONDecodeError = json.JSONDecodeError
        dumps = staticmethod(json.dumps)

        @staticmethod
        def loads(x):
            if isinstance(x, SymLine):
                # a proper fragment of a record line is not valid JSON - except the whole record without its final newline
                if x.from_line_start and not x.complete and sx.cur().decide(x.n == len(LINES[x.rec]) - 1):
                    return RECS[x.rec]
                raise json.JSONDecodeError("fragment", "", 0)
            return json.loads(x)

    class FakeFile:
        def __init__(self):
            self.pos = 0
            self.rec = 0
            self.mid = False

        def __enter__(self):
            return self

        def __exit__(self, *a):
            return False

        def seek(self, p):
            p = p.e if isinstance(p, SymSize) else p
            assert isinstance(p, int), "seek to a symbolic offset"
            assert p in OFFS, f"seek to {p}, which is not a record boundary"
            self.pos = p
            self.rec = OFFS.index(p)
            self.mid = False

        def __iter__(self):
            return self

        def __next__(self):
            world = state["world"]
            vis = world.advance()
            ex = sx.cur()
            if ex.concrete:
                # concrete replay: real bytes, real len(), real json
                if not vis > self.pos or self.rec > M:
                    raise StopIteration
                nl = OFFS[self.rec + 1]
                if vis >= nl:
                    line = FINAL[self.pos:nl]
                    self.pos, self.rec, self.mid = nl, self.rec + 1, False
                    return line
                line = FINAL[self.pos:vis]
                self.pos, self.mid = vis, True
                return line
            if not ex.decide(vis.e > self.pos):
                raise StopIteration
            if self.rec > M:
                raise StopIteration
            nl = OFFS[self.rec + 1]
            if ex.decide(vis.e >= nl):
                if not self.mid:
                    line = LINES[self.rec]
                else:
                    line = SymLine(nl - self.pos, True)
                self.pos = nl
                self.rec += 1
                self.mid = False
                return line
            line = SymLine(vis.e - self.pos, False, rec=self.rec, from_line_start=not self.mid)
            self.pos = vis.e
            self.mid = True
            return line

    class OS:
        path = types.SimpleNamespace(exists=lambda p: True)

        def stat(self, p):
            v = state["world"].advance()
            return types.SimpleNamespace(st_size=v if sx.cur().concrete else SymSize(v.e))

    def install():
        if not sx.cur().concrete:
            jf.len = lambda x: SymSize(x.n) if isinstance(x, SymLine) else builtins.len(x)
            jf.json = JSONShim
        jf.os = OS()
        jf.open = fake_open

    def fake_open(p, mode="rb", *args, **kwargs):
        if "b" not in mode or args or kwargs:
            # the adversarial-growth model is a model of BINARY reads (byte offsets): anything else cannot be judged by it
            raise core.HarnessError(f"read_logs opens the journal with open({mode!r}, {args}, {kwargs}): the reader model only supports binary mode")
        return FakeFile()

    def body():
        install()
        ex = sx.cur()
        pbegin = sx.sym_int("earlier_visible", 0, len(FINAL))
        begin = sx.sym_int("visible_at_call", 0, len(FINAL))
        be = jf.JournalFileBackend.__new__(jf.JournalFileBackend)
        be._file_path = "/x/j.log"
        be._log_number_offset = {0: 0}
        # an earlier read on an earlier prefix leaves an arbitrary (valid) cache behind
        state["world"] = World(pbegin, len(FINAL))
        kp = sx.choose(M + 2, "earlier_read_from")
        sx.assume(pbegin >= OFFS[kp])               # callers never ask beyond the records they have seen
        be.read_logs(kp)
        for i, off in be._log_number_offset.items():
            assert isinstance(off, int) and OFFS[i] == off, f"offset cache wrong after the first read: {be._log_number_offset}"
        # the read under test starts when `begin` bytes are visible
        sx.assume(begin >= state["world"].vis)
        state["world"].vis = begin
        k = sx.choose(M + 2, "read_from")
        sx.assume(begin >= OFFS[k])
        logs = be.read_logs(k)                       # REAL code
        sx.reach("read")
        if logs:
            sx.reach("nonempty")
        assert logs == RECS[k:k + len(logs)], f"not the contiguous run of records from {k}: {logs}"
        for i, off in be._log_number_offset.items():
            assert isinstance(off, int) and OFFS[i] == off, f"offset cache inconsistent with the file: {be._log_number_offset} vs {OFFS}"
        j = k + len(logs)
        # every record that was complete when the call began is covered
        return True if j > M else (begin < OFFS[j + 1])
    return body


def setup_reader(concrete):
    pass


# ---------------------------------------------------------------------------------------------- (b) lock protocol BMC
def nonascii_offsets_concrete():
    """CONCRETE companion of reader-growth (the symbolic model has abstract ASCII records): the real backend on a real temporary file with
    records that contain multi-byte characters; a long-lived reader's incremental reads (cached byte offsets) must agree with a fresh
    reader for every starting record, for both lock classes and for records appended one by one or several per call"""
    import os
    import shutil
    import tempfile
    import warnings
    warnings.simplefilter("ignore")
    t0 = time.time()
    d = tempfile.mkdtemp(prefix="c07na")
    bad = []
    n = 0
    recs = [{"k": "plain"}, {"k": "caf\u00e9 \u65e5\u672c\u8a9e"}, {"k": "x", "emoji": "\U0001F600", "nested": {"\u00fc": [1, "\u00df"]}}, {"k": "tail"}, {"k": "\u00e9"}]
    try:
        for lock_name in ("JournalFileSymlinkLock", "JournalFileOpenLock"):
            for batch in (1, 2):
                path = os.path.join(d, f"{lock_name}-{batch}.log")
                mk = lambda: jf.JournalFileBackend(path, lock_obj=getattr(jf, lock_name)(path))     # noqa: E731
                old = mk()
                written = []
                for i in range(0, len(recs), batch):
                    mk().append_logs(recs[i:i + batch])
                    written += recs[i:i + batch]
                    for k in range(len(written) + 1):
                        n += 1
                        try:
                            got_old = old.read_logs(k)
                            got_new = mk().read_logs(k)
                        except Exception as e:  # noqa
                            bad.append(dict(lock=lock_name, batch=batch, read_from=k, error=f"{type(e).__name__}: {str(e)[:80]}"))
                            continue
                        if got_old != written[k:] or got_new != written[k:]:
                            bad.append(dict(lock=lock_name, batch=batch, read_from=k, long_lived=got_old, fresh=got_new, expected=written[k:]))
    finally:
        shutil.rmtree(d, ignore_errors=True)
    res = {"result": "ok" if not bad else "mismatch", "queries": 0, "programs": n, "wall_s": time.time() - t0,
           "samples": [dict(reads=n, records=len(recs), note="concrete, real file")]}
    if bad:
        res["cex"] = [{"key": "reader:non-ascii-records:incremental-read-differs", "pre_replayed": True, "values": {}, "choices": [], "notes": {k: str(v)[:200] for k, v in bad[0].items()},
                       "kind": "concrete", "message": f"incremental read_logs with multi-byte records: {str(bad[0])[:300]}"}]
    return res


GRACE_TICKS = 6        # envsum.lockbmc.GRACE // TICK


def make_bmc(lock_cls, K, depth, rounds, step_delay, hold_bound, crash=False, expect_sat=(), interrupts=False):
    def run():
        from envsum import lockbmc as L
        t0 = time.time()
        aut = L.extract(lock_cls, interrupts=interrupts)
        res = {"queries": 0, "solver_s": 0.0, "states": len(aut["nodes"]), "transitions": sum(len(e) for e in aut["edges"].values()),
               "automaton_paths": aut["paths"], "lock": lock_cls, "K": K, "depth": depth, "rounds": rounds, "samples": []}
        if aut["conflicts"] or not aut["flow_ok"]:
            res["failed"] = True
            res["inconclusive"] = (f"call-site quotient of {lock_cls}.append_logs rejected: {aut['conflicts']} nondeterministic merges, "
                                   f"clock flow ok={aut['flow_ok']} (behaviour depends on state that is neither call site nor model state)")
            return res
        pre_cex = []
        if aut["io_outside_lock"]:
            # some path delivers journal bytes outside the lock-held window: confirm on the real code (one worker, one append)
            viol, _ = L.replay(lock_cls, [{"p": 0, "call": "create", "now": 0.0}, {"p": 0, "call": "rename", "now": 0.0}], 1, False, 1)
            if viol:
                pre_cex.append({"key": f"{lock_cls}:journal-io-outside-lock", "pre_replayed": True, "values": {}, "choices": [], "notes": {"calls": [str(x) for x in aut["io_outside_lock"]]},
                                "kind": "path-property", "message": f"append_logs delivers journal bytes outside the lock: {viol}; calls {aut['io_outside_lock']}"})
            else:
                res["inconclusive"] = f"extracted paths deliver bytes outside the lock ({aut['io_outside_lock']}) but the replay did not confirm it"
        if aut["lock_leaked"]:
            viol, _ = L.replay(lock_cls, [{"p": 0, "call": "create", "now": 0.0}, {"p": 0, "call": "rename", "now": 0.0}], 1, False, 1, fail_write=(0,))
            if viol:
                pre_cex.append({"key": f"{lock_cls}:lock-not-released-on-exception", "pre_replayed": True, "values": {}, "choices": [], "notes": {"paths": aut["lock_leaked"][:4]},
                                "kind": "path-property", "message": f"append_logs leaves its lock behind when it fails: {viol}; paths {aut['lock_leaked'][:3]}"})
            else:
                res["inconclusive"] = f"extracted paths leave the lock behind ({aut['lock_leaked'][:3]}) but the replay did not confirm it"
        r = L.bmc(aut, K, depth, crash=crash, rounds=rounds, step_delay=step_delay, hold_bound=hold_bound, timeout_ms=1500000)
        res["queries"] = r["queries"]
        res["solver_s"] = r["solver_s"]
        res["result"] = {k: v for k, v in r["result"].items() if not k.endswith("_trace")}
        inv = {v: k for k, v in aut["nodes"].items()}
        res["samples"] = [{"automaton": [f"{inv[n][0]}@{[x for x in inv[n][1] if isinstance(x, int)][:2]}" for n in sorted(aut["edges"])][:14]}]
        out = r["result"]
        cex = list(pre_cex)
        validated = len(pre_cex)
        for prop in ("mutual_exclusion", "release_raises"):
            if out[prop] == "sat":
                tr = out[prop + "_trace"]
                viol, log = L.replay(lock_cls, tr, K, crash, rounds)
                validated += 1
                if viol:
                    cex.append({"key": f"{lock_cls}:{prop}:{'dead-holder' if crash else 'no-crash'}", "pre_replayed": True, "values": {}, "choices": [],
                                "notes": {"schedule": [(x["p"], x["call"], x["now"]) for x in tr]}, "kind": "bmc",
                                "message": f"{prop} violated: {viol}; schedule {[(x['p'], x['call'], x['now']) for x in tr]}"})
                else:
                    res["inconclusive"] = f"{prop}: BMC schedule did not reproduce on the real code (model or stub wrong)"
            elif out[prop] != "unsat":
                res["inconclusive"] = f"{prop}: solver answered {out[prop]}"
        if out["unwinding"] != "unsat":
            res["inconclusive"] = f"unwinding query {out['unwinding']}: a process can leave the extracted automaton within the depth (raise maxcalls)"
        if interrupts and out.get("witness_interrupted") != "sat":
            res["inconclusive"] = f"reachability witness {out.get('witness_interrupted')}: no schedule interrupts a waiting process within depth {depth} (vacuity guard)"
        if out["witness_all_done"] != "sat":
            res["inconclusive"] = f"reachability witness {out['witness_all_done']}: no schedule lets every process finish within depth {depth} (vacuity guard)"
        res["traces_validated_against_impl"] = validated
        res["cex"] = cex
        res["wall_s"] = time.time() - t0
        return res
    return run


CODE = [jf.JournalFileBackend.read_logs, jf.JournalFileBackend.append_logs, jf.JournalFileSymlinkLock.acquire, jf.JournalFileSymlinkLock.release,
        jf.JournalFileOpenLock.acquire, jf.JournalFileOpenLock.release, jf.get_lock_file]


def classify(c):
    import re
    m = re.sub(r"at [\w\.]+:\d+: ", "", c["message"])
    return re.sub(r"[0-9]+", "N", m)[:100]


def obligations(tier):
    q = tier == "quick"
    obs = [
        Obligation("reader-growth-3", make_reader_body(3), setup_reader, CODE, bounds=dict(records="3 complete + 1 in flight", reads=2),
                   shard_depth=4, budget_s=900, classify=classify, require_reach=["read", "nonempty"],
                   describe="read_logs under adversarial append-only growth, arbitrary earlier offset cache"),
    ]
    obs.append(Obligation("reader-nonascii-concrete", None, None, CODE, custom=nonascii_offsets_concrete,
                          describe="CONCRETE companion: records with multi-byte characters on a real file, long-lived vs fresh reader, every starting record"))
    if not q:
        obs.append(Obligation("reader-growth-4", make_reader_body(4), setup_reader, CODE, bounds=dict(records="4 complete + 1 in flight", reads=2),
                              shard_depth=5, budget_s=3000, classify=classify, require_reach=["read", "nonempty"], describe="same with 4 records"))
    for cls in ("JournalFileSymlinkLock", "JournalFileOpenLock"):
        short = "symlink" if "Symlink" in cls else "open"
        obs.append(Obligation(f"lock-bmc-{short}-k2", None, None, CODE, custom=make_bmc(cls, 2, 10, 1, 2, 2),
                              bounds=dict(processes=2, rounds=1, macro_steps=10, step_delay_s=10, hold_bound_s=10),
                              describe=f"{cls}: 2 processes x 1 append, all schedules up to 10 macro steps"))
        obs.append(Obligation(f"lock-bmc-{short}-k2r2", None, None, CODE, custom=make_bmc(cls, 2, 14 if q else 16, 2, 1, 2),
                              bounds=dict(processes=2, rounds=2, macro_steps=14 if q else 16, step_delay_s=5, hold_bound_s=10),
                              describe=f"{cls}: 2 processes x 2 appends (re-acquisition while the other waits)"))
        obs.append(Obligation(f"lock-bmc-{short}-interrupt", None, None, CODE, custom=make_bmc(cls, 2, 10, 1, 2, 2, interrupts=True),
                              bounds=dict(processes=2, rounds=1, macro_steps=10, step_delay_s=10, hold_bound_s=10, fault="KeyboardInterrupt raised by time.sleep in a waiting process"),
                              describe=f"{cls}: a waiting worker interrupted by SIGINT (KeyboardInterrupt out of time.sleep) leaves the other workers' lock alone"))
        obs.append(Obligation(f"lock-bmc-{short}-longhold", None, None, CODE, custom=make_bmc(cls, 2, 16, 2, 1, GRACE_TICKS),
                              bounds=dict(processes=2, rounds=2, macro_steps=16, step_delay_s=5, hold_bound_s=30),
                              describe=f"{cls}: a holder may keep the lock for the whole grace period (30 s) and hand it over at the last moment while "
                                       "the other process has been waiting all along"))
        if not q:
            obs.append(Obligation(f"lock-bmc-{short}-longhold-k3", None, None, CODE, custom=make_bmc(cls, 3, 14, 1, 1, GRACE_TICKS),
                                  bounds=dict(processes=3, rounds=1, macro_steps=14, step_delay_s=5, hold_bound_s=30),
                                  describe=f"{cls}: long hold, hand-over to a third process"))
        obs.append(Obligation(f"lock-bmc-{short}-k3", None, None, CODE, custom=make_bmc(cls, 3, 12 if q else 14, 1, 1, 2),
                              bounds=dict(processes=3, rounds=1, macro_steps=12 if q else 14, step_delay_s=5, hold_bound_s=10),
                              describe=f"{cls}: 3 processes x 1 append"))
    return obs
