"""C09 — reproducible from the seed, independent of the storage (narrow claim, DESIGN.md §3 C09)."""
from __future__ import annotations

import math
import time

import optuna
from optuna.samplers._ga._base import BaseGASampler
from optuna.storages import InMemoryStorage
from optuna.trial import TrialState, create_trial

import symex as sx
from symex import Obligation

META = {
    "level": "other",
    "explanation": (
        "Narrow claim. The only channel through which a storage can influence a sampler is identifiers and sampler memory kept "
        "in system attributes. The real BaseGASampler.get_trial_generation/get_population/get_parent_population (NSGA-II/III), "
        "and optuna.copy_study are executed with a symbolic trial-id offset (another study's trials share the id space), a "
        "symbolic parent subset and z3-real objective values; results expressed in trial numbers must not depend on the offset "
        "and the cached second call must equal the first. The second channel is representation order: backends return a trial's "
        "dict fields in different orders and set iteration order changes with PYTHONHASHSEED; two obligations feed the real TPE split "
        "and the real group-decomposed sample_relative the same data in every order and require equal results. A supplementary obligation (concrete differential, not solver-decided, "
        "labelled as such) runs whole seeded optimisations of every built-in sampler that works offline on storages that differ "
        "only in id offset / backend / split of the run and compares the trial sequences."
    ),
    "assumptions": ["InMemoryStorage with pre-existing trials of another study models the id offset of RDB/journal/proxy backends",
                    "whole-run equality is sampled concretely for fixed seeds (supplementary), not decided by the solver"],
    "outside": ["equality of whole seeded runs for all objective programs (only fixed programs are run concretely)", "RNG streams",
                "RDB / gRPC transports", "Torch-based GP sampler numerics"],
}


class StubSelect(optuna.samplers.NSGAIISampler):
    chosen = ()

    def select_parent(self, study, generation):
        ts = study.get_trials(deepcopy=False)
        return [ts[i] for i in self.chosen]


class StubSelect3(optuna.samplers.NSGAIIISampler):
    chosen = ()

    def select_parent(self, study, generation):
        ts = study.get_trials(deepcopy=False)
        return [ts[i] for i in self.chosen]


def _mk_storage(off):
    storage = InMemoryStorage()
    if off:
        other = optuna.create_study(storage=storage, study_name="other")
        for _ in range(off):
            other.add_trial(create_trial(value=0.0))
    return storage


def parent_cache_body():
    off = int(sx.sym_int("id_offset", 0, 3))
    kind = "nsga2"    # NSGAIIISampler does not use the BaseGASampler parent cache
    sampler = StubSelect(population_size=2, seed=0)
    storage = _mk_storage(off)
    study = optuna.create_study(storage=storage, study_name="s", directions=["minimize", "minimize"], sampler=sampler)
    n = 3
    for i in range(n):
        study.add_trial(create_trial(values=[sx.sym_real(f"v{i}a"), sx.sym_real(f"v{i}b")]))
    mask = int(sx.sym_int("parent_mask", 1, (1 << n) - 1))
    sampler.chosen = tuple(i for i in range(n) if mask >> i & 1)
    sx.note("scenario", dict(offset=off, sampler=kind, chosen=sampler.chosen))
    first = [t.number for t in sampler.get_parent_population(study, 1)]
    assert first == list(sampler.chosen)
    second = [t.number for t in sampler.get_parent_population(study, 1)]   # served from the cached system attribute
    sx.reach("cached-call")
    assert second == first, f"parents from cache {second} != selected parents {first} (trial-id offset {off})"
    # the same cache read by a fresh sampler object / a study copied elsewhere
    s2 = (StubSelect if kind == "nsga2" else StubSelect3)(population_size=2, seed=0)
    third = [t.number for t in s2.get_parent_population(study, 1)]
    assert third == first, f"parents read by a second worker {third} != {first} (offset {off})"
    return True


def generation_body():
    """get_trial_generation / get_population expressed in numbers do not depend on the id offset"""
    off = int(sx.sym_int("id_offset", 0, 3))
    res = []
    for o in (0, off):
        sampler = optuna.samplers.NSGAIISampler(population_size=2, seed=0)
        storage = _mk_storage(o)
        study = optuna.create_study(storage=storage, study_name="s", directions=["minimize"], sampler=sampler)
        gens = [int(sx.sym_int(f"gen{i}", -1, 2)) for i in range(3)] if o == 0 and not res else res[0][2]
        for i, g in enumerate(gens):
            t = create_trial(values=[float(i)], system_attrs={} if g < 0 else {sampler._get_generation_key(): g})
            study.add_trial(t)
        tr = study.ask()
        g_new = sampler.get_trial_generation(study, storage.get_trial(tr._trial_id))
        pops = {g: [t.number for t in sampler.get_population(study, g)] for g in range(0, 3)}
        res.append((g_new, pops, gens))
    sx.reach("compared")
    assert res[0][:2] == res[1][:2], f"generation bookkeeping depends on id offset {off}: {res[0][:2]} vs {res[1][:2]}"
    return True


def copy_study_body():
    off = int(sx.sym_int("id_offset", 0, 2))
    src = optuna.create_study(storage=InMemoryStorage(), study_name="src", directions=["minimize", "maximize"])
    src.set_user_attr("ua", {"k": [1, 2]})
    src._storage.set_study_system_attr(src._study_id, "sa", "x")
    n = 3
    for i in range(n):
        st = [TrialState.COMPLETE, TrialState.PRUNED, TrialState.FAIL, TrialState.WAITING][sx.choose(4, f"t{i}.state")]
        kw = {}
        if st == TrialState.COMPLETE:
            kw["values"] = [sx.sym_float(f"t{i}_v0", ("finite", "inf")), sx.sym_real(f"t{i}_v1")]
        has_p = bool(sx.choose(2, f"t{i}.param"))
        params = {"x": 0.5} if has_p else {}
        dists = {"x": optuna.distributions.FloatDistribution(0, 1)} if has_p else {}
        iv = {0: sx.sym_float(f"t{i}_iv", ("finite", "nan"))} if st in (TrialState.PRUNED, TrialState.COMPLETE) else {}
        src.add_trial(create_trial(state=st, params=params, distributions=dists, user_attrs={"u": i}, system_attrs={"s": [i]},
                                   intermediate_values=iv, **kw))
    dst_storage = _mk_storage(off)
    optuna.copy_study(from_study_name="src", from_storage=src._storage, to_storage=dst_storage, to_study_name="dst")
    dst = optuna.load_study(study_name="dst", storage=dst_storage)
    a, b = src.get_trials(deepcopy=False), dst.get_trials(deepcopy=False)
    assert len(a) == len(b)
    conds = []
    for x, y in zip(a, b):
        assert (x.number, x.state, x.params, x.distributions, x.user_attrs, x.system_attrs) == \
               (y.number, y.state, y.params, y.distributions, y.user_attrs, y.system_attrs), f"trial {x.number} differs in copy"
        assert (x.values is None) == (y.values is None)
        if x.values is not None:
            conds += [sx.eq_nan(p, q) for p, q in zip(x.values, y.values)]
        assert set(x.intermediate_values) == set(y.intermediate_values)
        conds += [sx.eq_nan(x.intermediate_values[k], y.intermediate_values[k]) for k in x.intermediate_values]
        assert x.datetime_start == y.datetime_start and x.datetime_complete == y.datetime_complete, "timestamps not copied"
    assert dst.user_attrs == src.user_attrs and dst.directions == src.directions
    assert dst._storage.get_study_system_attrs(dst._study_id) == src._storage.get_study_system_attrs(src._study_id)
    sx.reach("copied")
    return sx.all_of(conds) if conds else True


def bracket_offset_body():
    """Hyperband bracket of (study name, number) must not depend on the trial-id offset"""
    off = int(sx.sym_int("id_offset", 0, 4))
    rf = sx.choose([2, 3], "rf")
    res = []
    for o in (0, off):
        pruner = optuna.pruners.HyperbandPruner(min_resource=1, max_resource=9, reduction_factor=rf)
        storage = _mk_storage(o)
        study = optuna.create_study(storage=storage, study_name="s", pruner=pruner, sampler=optuna.samplers.RandomSampler(seed=0))
        ids = []
        for n in range(5):
            t = study.ask()
            t.report(sx.sym_real(f"r{n}"), 0)
            t.should_prune()
            ids.append(pruner._get_bracket_id(study, storage.get_trial(t._trial_id)))
            study.tell(t, 0.0)
        res.append(ids)
    sx.reach("compared")
    assert res[0] == res[1], f"Hyperband brackets depend on the trial-id offset {off}: {res}"
    return True


# ----------------------------------------------------------------------------- representation order (dict / set iteration order)
def tpe_split_order_body():
    """backends return a trial's dict fields in different orders (in-memory and journal keep the report order, the RDB sorts steps):
    the TPE below/above split - the only place where TPE reads intermediate values - must not depend on that order"""
    import itertools
    from optuna.samplers._tpe import sampler as tpe_sampler
    n = 3
    direction = sx.choose(["minimize", "maximize"], "direction")
    studies = [optuna.create_study(direction=direction, storage=InMemoryStorage()) for _ in range(2)]
    for i in range(n):
        st = TrialState[sx.choose(["COMPLETE", "PRUNED"], f"t{i}.state")]
        v = sx.sym_real(f"v{i}") if st == TrialState.COMPLETE else None
        items = []
        if st == TrialState.PRUNED:
            nst = sx.choose([0, 2, 3], f"t{i}.n_steps")
            items = [(s_, sx.sym_float(f"t{i}_s{s_}", ("finite", "nan") if s_ == nst - 1 else ("finite",))) for s_ in range(nst)]
        perm = sx.choose(list(itertools.permutations(range(len(items)))), f"t{i}.report_order") if len(items) > 1 else tuple(range(len(items)))
        orders = [dict(items), dict(items[k] for k in perm)]
        for study, iv in zip(studies, orders):
            study.add_trial(create_trial(state=st, value=v, intermediate_values=iv))
    n_below = sx.choose([0, 1, 2], "n_below")
    res = []
    for study in studies:
        trials = study.get_trials(deepcopy=False)
        below, above = tpe_sampler._split_trials(study, trials, n_below, False)
        res.append(([t.number for t in below], [t.number for t in above]))
    sx.reach("compared")
    assert res[0] == res[1], f"TPE below/above split depends on the order in which the backend returns intermediate values: {res[0]} vs {res[1]}"
    return True


def tpe_group_order_body():
    """the decomposed search-space groups are built from sets of strings, whose iteration order changes with PYTHONHASHSEED: the
    dimension order handed to the estimator (which decides which part of the seeded random stream a parameter gets) must not
    depend on it"""
    import itertools
    from optuna.distributions import FloatDistribution, IntDistribution
    from optuna.search_space.group_decomposed import _SearchSpaceGroup
    names = ["lr", "momentum", "width", "depth"]
    dists = {"lr": FloatDistribution(1e-4, 1.0, log=True), "momentum": FloatDistribution(0, 1), "width": IntDistribution(1, 64), "depth": IntDistribution(3, 3)}
    split = sx.choose([1, 2, 3, 4], "first_group_size")
    groups = [names[:split], names[split:]]
    seen = []
    for variant in range(2):
        sampler = optuna.samplers.TPESampler(seed=1, multivariate=True, group=True, n_startup_trials=0)
        g = _SearchSpaceGroup()
        spaces = []
        for gi, grp in enumerate(groups):
            if not grp:
                continue
            order = list(grp) if variant == 0 else [grp[k] for k in sx.choose(list(itertools.permutations(range(len(grp)))), f"hash_order_group{gi}")]
            spaces.append({nm: dists[nm] for nm in order})
        g._search_spaces = spaces
        import types
        sampler._group_decomposed_search_space = types.SimpleNamespace(calculate=lambda study, g=g: g)    # the real one iterates over sets
        calls = []
        sampler._sample_relative = lambda study, trial, search_space, calls=calls: (calls.append(list(search_space)), {})[1]
        study = optuna.create_study(storage=InMemoryStorage())
        inferred = sampler.infer_relative_search_space(study, None)                  # REAL code
        sampler.sample_relative(study, None, inferred)                               # REAL code
        seen.append((list(inferred), calls))
    sx.reach("compared")
    assert seen[0] == seen[1], f"dimension order handed to the estimator depends on the iteration order of the group's dict: {seen[0]} vs {seen[1]}"
    return True


# ----------------------------------------------------------------------------- supplementary concrete differential
def _objective(trial):
    x = trial.suggest_float("x", -3, 3)
    k = trial.suggest_int("k", 0, 4)
    c = trial.suggest_categorical("c", ["a", "b", "c"])
    if c == "b":
        y = trial.suggest_float("y", 0.0, 1.0, step=0.25)
    else:
        y = 0.0
    v = (x - 1) ** 2 + k * 0.1 + y
    for s in range(3):
        trial.report(v + s, s)
        if trial.should_prune():
            raise optuna.TrialPruned()
    if k == 4 and c == "c":
        raise ValueError("deterministic failure")
    return v


def _objective_finite(trial):
    k = trial.suggest_int("k", 0, 4)
    c = trial.suggest_categorical("c", ["a", "b", "c"])
    y = trial.suggest_float("y", 0.0, 1.0, step=0.25) if c == "b" else 0.0
    if k == 4 and c == "c":
        raise ValueError("deterministic failure")
    return k * 0.1 + y


def _objective_grid(trial):
    g = trial.suggest_categorical("g", [0, 1.5, float("nan"), float("inf")])
    c = trial.suggest_categorical("c", ["a", None, True])
    base = 0.0 if (isinstance(g, float) and (g != g or g == float("inf"))) else float(g)
    trial.report(base, 0)
    return base + (1.0 if c == "a" else 0.0)


def _objective_mo(trial):
    x = trial.suggest_float("x", 0, 1)
    y = trial.suggest_float("y", 0, 1)
    k = trial.suggest_int("k", 0, 3)
    # several categorical parameters with hash-unfriendly names: their order must never come from set iteration
    a = trial.suggest_categorical("activation", ["relu", "tanh", "gelu"])
    o = trial.suggest_categorical("optimizer", ["sgd", "adam", "rmsprop"])
    n = trial.suggest_categorical("norm_layer", ["none", "batch", "layer"])
    pen = {"relu": 0.0, "tanh": 0.1, "gelu": 0.2}[a] + {"sgd": 0.0, "adam": 0.05, "rmsprop": 0.15}[o]
    return x + 0.1 * k + pen, (1 - x) * (1 + y) + {"none": 0.0, "batch": 0.3, "layer": 0.1}[n]


def _samplers():
    S = optuna.samplers
    out = {
        "random": (lambda: S.RandomSampler(seed=7), False),
        "tpe": (lambda: S.TPESampler(seed=7, n_startup_trials=4), False),
        "tpe-mv-group": (lambda: S.TPESampler(seed=7, n_startup_trials=4, multivariate=True, group=True), False),
        "nsga2": (lambda: S.NSGAIISampler(seed=7, population_size=4), True),
        "nsga3": (lambda: S.NSGAIIISampler(seed=7, population_size=4), True),
        "qmc": (lambda: S.QMCSampler(seed=7, qmc_type="halton"), False),
        "cmaes": (lambda: S.CmaEsSampler(seed=7, n_startup_trials=3), False),
        "bruteforce": (lambda: S.BruteForceSampler(seed=7), False),
        "grid": (lambda: S.GridSampler({"g": [0, 1.5, float("nan"), float("inf")], "c": ["a", None, True]}, seed=7), False),
    }
    return out


class _FreshPruner:
    """factory wrapper: every run gets its own pruner object"""
    def __init__(self, mk):
        self.mk = mk


def _run(make_sampler, mo, storage, splits, pruner):
    if isinstance(pruner, _FreshPruner):
        pruner = pruner.mk()
    study = optuna.create_study(storage=storage, study_name="run", sampler=make_sampler(), pruner=pruner,
                                directions=["minimize", "minimize"] if mo else ["minimize"])
    if isinstance(study.sampler, optuna.samplers.GridSampler):
        # warm-start points that carry no grid id (the sampler then has to pick among the remaining grid points itself)
        for g, c in ((0, "a"), (1.5, None), (0, True)):
            study.enqueue_trial({"g": g, "c": c})
    for n in splits:
        obj = _objective_mo if mo else (_objective_finite if isinstance(study.sampler, optuna.samplers.BruteForceSampler) else
                                        _objective_grid if isinstance(study.sampler, optuna.samplers.GridSampler) else _objective)
        study.optimize(obj, n_trials=n, catch=(ValueError,))
    # repr() of plain Python numbers so that NaN compares equal to itself and numpy scalars compare by value
    def norm(x):
        if isinstance(x, bool) or x is None or isinstance(x, str):
            return x
        if isinstance(x, int):
            return int(x)
        return float(x)
    return [repr((t.number, t.state.name, tuple((k, norm(v)) for k, v in sorted(t.params.items(), key=lambda kv: kv[0])),
                  tuple(norm(v) for v in t.values) if t.values else None,
                  tuple((int(k), norm(v)) for k, v in sorted(t.intermediate_values.items())))) for t in study.get_trials(deepcopy=False)]


def _run_in_subprocess(name, pi, N, hashseed):
    """the same seeded in-memory run in a fresh interpreter with another PYTHONHASHSEED (string hashing / set order differ)"""
    import json
    import os
    import subprocess
    import sys
    env = dict(os.environ, PYTHONHASHSEED=str(hashseed))
    env["PYTHONPATH"] = os.pathsep.join([os.path.dirname(os.path.dirname(os.path.abspath(__file__)))] + ([env["PYTHONPATH"]] if env.get("PYTHONPATH") else []))
    code = f"import json, harness.c09 as h; print('RESULT' + json.dumps(h._run_named({name!r}, {pi}, {N})))"
    out = subprocess.run([sys.executable, "-c", code], env=env, capture_output=True, text=True, timeout=600)
    for line in out.stdout.splitlines():
        if line.startswith("RESULT"):
            return json.loads(line[6:])
    return [("subprocess failed", out.stderr[-300:])]


def _mk_pruners(mo):
    return [lambda: None] if mo else [lambda: optuna.pruners.MedianPruner(n_startup_trials=3, n_warmup_steps=0),
                                      lambda: optuna.pruners.HyperbandPruner(min_resource=1, max_resource=3, reduction_factor=2)]


def _run_named(name, pi, N):
    import warnings
    warnings.simplefilter("ignore")
    optuna.logging.set_verbosity(optuna.logging.ERROR)
    mk, mo = _samplers()[name]
    return _run(mk, mo, InMemoryStorage(), [N], _FreshPruner(_mk_pruners(mo)[pi]))


def _run_split(make_sampler, mo, splits, pruner):
    """the same sampler object drives several optimize calls"""
    sampler = make_sampler()
    return _run(lambda: sampler, mo, InMemoryStorage(), splits, pruner)


def differential():
    import warnings
    import tempfile
    import shutil
    from optuna.storages import JournalStorage
    from optuna.storages.journal import JournalFileBackend
    warnings.simplefilter("ignore")
    t0 = time.time()
    n = 0
    bad = []
    samples = []
    d = tempfile.mkdtemp(prefix="c09diff")
    try:
        for name, (mk, mo) in _samplers().items():
            try:
                mk()
            except Exception as e:  # noqa  (optional dependency missing offline)
                samples.append({"sampler": name, "skipped": str(e)[:80]})
                continue
            mk_pruners = _mk_pruners(mo)
            if name in ("grid", "bruteforce", "qmc", "cmaes", "tpe-mv-group"):
                mk_pruners = mk_pruners[:1]
            for pi, mkp in enumerate(mk_pruners):
                pr = _FreshPruner(mkp)
                N = 14
                try:
                    base = _run(mk, mo, InMemoryStorage(), [N], pr)
                except ImportError as e:   # optional dependency (cmaes) not installed offline
                    samples.append({"sampler": name, "skipped": str(e)[:80]})
                    continue
                variants = {
                    "id-offset-3": lambda: _run(mk, mo, _mk_storage(3), [N], pr),
                    "journal-file": lambda: _run(mk, mo, JournalStorage(JournalFileBackend(f"{d}/{name}-{pi}.log")), [N], pr),
                    "rerun": lambda: _run(mk, mo, InMemoryStorage(), [N], pr),
                    "split-5+9": lambda: _run_split(mk, mo, [5, 9], pr),
                }
                if pi == 0 and name in ("tpe", "tpe-mv-group", "nsga2", "nsga3", "grid", "random"):
                    for hs in (1, 2):
                        variants[f"other-process-hashseed-{hs}"] = (lambda hs=hs: _run_in_subprocess(name, pi, N, hs))
                for vn, f in variants.items():
                    try:
                        got = f()
                    except Exception as e:  # noqa
                        got = [("raised", type(e).__name__, str(e)[:80])]
                    n += 1
                    if got != base:
                        k = next((i for i, (a, b) in enumerate(zip(base, got)) if a != b), min(len(base), len(got)))
                        bad.append({"sampler": name, "variant": vn, "first_difference_at_trial": k,
                                    "base": str(base[k] if k < len(base) else None)[:200], "got": str(got[k] if k < len(got) else None)[:200]})
                if len(samples) < 4:
                    samples.append({"sampler": name, "n_trials": len(base), "first_trials": [str(x)[:120] for x in base[:2]]})
    finally:
        shutil.rmtree(d, ignore_errors=True)
    res = {"result": "ok" if not bad else "mismatch", "programs": n, "samples": samples, "wall_s": time.time() - t0, "queries": 0,
           "note": "supplementary concrete differential runs (not solver-decided)"}
    if bad:
        res["cex"] = [{"key": f"{b['sampler']}:{b['variant']}", "message": f"seeded run differs: {b}", "pre_replayed": True,
                       "values": {}, "choices": [], "notes": b, "kind": "differential"} for b in bad]
    return res


def setup(concrete):
    if not concrete:
        from stubs.shims import shim_frozen_trial, shim_tell
        shim_frozen_trial()
        shim_tell()
        from optuna.pruners import _successive_halving as psh
        psh.math = sx.mathshim


def setup_tpe(concrete):
    setup(concrete)
    if not concrete:
        from optuna.samplers._tpe import sampler as tpe_sampler
        tpe_sampler.math = sx.mathshim


CODE = [BaseGASampler.get_parent_population, BaseGASampler.get_trial_generation, BaseGASampler.get_population,
        optuna.copy_study, optuna.study.Study.add_trials, optuna.study.Study.add_trial]


def _code_tpe():
    from optuna.samplers._tpe import sampler as tpe_sampler
    return [tpe_sampler._split_trials, tpe_sampler._split_pruned_trials, tpe_sampler._get_pruned_trial_score, tpe_sampler.TPESampler.sample_relative,
            tpe_sampler.TPESampler.infer_relative_search_space]


CODE_TPE = _code_tpe()


def classify(c):
    import re
    m = re.sub(r"at [\w\.]+:\d+: ", "", c["message"])
    sc = c.get("notes", {}).get("scenario")
    if sc is not None:
        off = "id-offset>0" if sc.get("offset") else "id-offset=0"
        if "parents from cache" in m or "parents read by a second worker" in m:
            return f"cached-parents-differ:{off}"
        if "IndexError" in c["message"] and "_base.py" in c["message"]:
            return f"IndexError-in-get_parent_population:{off}"
    return re.sub(r"\[[^\]]*\]|\d+", "_", m)[:100]


def obligations(tier):
    obs = [
        Obligation("ga-parent-cache", parent_cache_body, setup, CODE, bounds=dict(id_offset="0..3", trials=3, parent_subsets="all non-empty", samplers=["NSGAII"]),
                   budget_s=300, classify=classify, require_reach=["cached-call"],
                   describe="get_parent_population twice + from a second sampler object; symbolic id offset and parent subset; objective values z3 reals"),
        Obligation("ga-generation", generation_body, setup, CODE, bounds=dict(id_offset="0..3", trials=3, generations="-1..2 each"),
                   budget_s=300, classify=classify, require_reach=["compared"],
                   describe="get_trial_generation/get_population with and without id offset"),
        Obligation("hyperband-bracket-offset", bracket_offset_body, setup, CODE + [optuna.pruners.HyperbandPruner._get_bracket_id],
                   bounds=dict(id_offset="0..4", trials=5), budget_s=300, classify=classify, require_reach=["compared"],
                   describe="Hyperband bracket ids with and without a trial-id offset"),
        Obligation("copy-study", copy_study_body, setup, CODE, bounds=dict(trials=3, states=4, id_offset="0..2"), shard_depth=3,
                   budget_s=400, classify=classify, require_reach=["copied"],
                   describe="copy_study reproduces every field of every trial (values/intermediate values z3 reals, inf/NaN forks)"),
        Obligation("tpe-split-order", tpe_split_order_body, setup_tpe, CODE_TPE, bounds=dict(trials=3, steps=[0, 2, 3], report_orders="all permutations", values="z3 reals / NaN"),
                   shard_depth=4, budget_s=600, classify=classify, require_reach=["compared"],
                   describe="TPE's below/above split does not depend on the order in which a backend returns a trial's intermediate values"),
        Obligation("tpe-group-order", tpe_group_order_body, setup_tpe, CODE_TPE, bounds=dict(parameters=4, groupings=4, orders="all permutations per group"),
                   budget_s=300, classify=classify, require_reach=["compared"],
                   describe="group-decomposed TPE hands parameters to the estimator in an order independent of dict/set iteration order (PYTHONHASHSEED)"),
        Obligation("seeded-run-differential", None, None, [], custom=differential,
                   describe="SUPPLEMENTARY, concrete: seeded runs of 9 samplers x {Median, Hyperband} pruners x (id offset 3 | journal file | rerun | split) equal the in-memory run"),
    ]
    return obs
