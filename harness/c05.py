"""C05 — acknowledged writes survive a crash and an interrupted write is all-or-nothing (DESIGN.md §3 C05), journal file part."""
from __future__ import annotations

import errno
import io
import json
import time
import types

import optuna.storages.journal._file as jf
from optuna.trial import TrialState as optuna_TrialState

import symex as sx
from symex import Obligation

META = {
    "level": "fault_enumeration",
    "explanation": (
        "Crash points as symbolic variables over the real code: a writer runs the real JournalFileBackend.append_logs (symlink or O_EXCL lock) "
        "against an in-memory POSIX model and dies at a symbolic index of its system-call trace (lock create, open, write, fsync, close, rename, "
        "unlink) with a symbolic number of bytes of the interrupted write delivered; from that instant every further file-system call of the dead "
        "process is inert (a killed process runs no handlers). Survivors and a fresh opener then run the real append_logs/read_logs (the stale lock "
        "is overcome through the real grace-period path, the clock is a stub) and the statement is asserted: every append that returned is visible "
        "to everybody in order, the interrupted one is wholly present or wholly absent, no survivor call raises, cached offsets agree with a fresh "
        "reader. The takeover of a dead holder's lock by two survivors is decided by the C07 bounded model checker with a dead holder and arbitrary "
        "timing; its satisfying schedule is replayed on the real code. The same model checker decides, with KeyboardInterrupt out of time.sleep as a "
        "symbolic fault of a waiting worker (a worker killed by SIGINT runs its finally-blocks), that the dying waiter never removes the holder's lock."
    ),
    "assumptions": ["POSIX model: append-mode write() delivers its bytes atomically at EOF except when cut short by the crash; rename/symlink/O_EXCL atomic",
                    "unflushed user-space buffers of the dead process are lost; completed writes are durable (no reordering after power loss)"],
    "outside": ["SQLite/RDB crash atomicity (inside the C library)", "kernel/NFS behaviours beyond the POSIX model", "KeyboardInterrupt delivered anywhere else than in "
                "time.sleep of a worker waiting for the lock (interrupted-waiter-bmc covers that point only)"],
}


class Crash(BaseException):
    pass


class FS:
    def __init__(self):
        self.files = {}
        self.links = {}
        self.mtime = {}
        self.clock = 0.0
        self.calls = 0
        self.crash_at = None
        self.cut = None
        self.dead = False
        self.where = None
        self.gen = 0
        self.unbuffered = False      # True: the record exceeds the io buffer, every f.write() is its own write(2) (BufferedWriter semantics)

    def tick(self, what):
        if getattr(self, "ctrl", None) is not None:
            raise self.ctrl          # an explorer control exception is unwinding through finally-blocks: every further call re-raises it
        if self.dead:
            raise Crash(self.where)
        self.total = getattr(self, "total", 0) + 1
        # bounded liveness: with the stub clock the grace period expires after one poll, so nobody can legitimately need this many calls
        assert self.total < 400, "a survivor is still blocked after 400 file-system calls although the grace period expired long ago"
        self.calls += 1
        if self.crash_at is not None and self.calls == self.crash_at:
            self.dead = True
            self.where = what
            raise Crash(what)


_fs: FS = None  # type: ignore


class WFile:
    def __init__(self, path):
        self.path = path
        self.buf = b""

    def __enter__(self):
        return self

    def __exit__(self, *a):
        if a[0] is None:
            self.flush()
        return False

    def write(self, b):
        self.buf += b
        if _fs.unbuffered:
            self.flush()

    def flush(self):
        if not self.buf:
            return
        data, self.buf = self.buf, b""
        if _fs.dead:
            raise Crash(_fs.where)
        if _fs.crash_at is not None and _fs.calls + 1 == _fs.crash_at:      # the crash hits inside this write
            try:
                ncut = _fs.cut(len(data))
            except BaseException as e:      # Cutoff / PathAbort from the explorer must not be replaced by a Crash raised in a finally-block
                _fs.ctrl = e
                raise
            _fs.files[self.path] = _fs.files.get(self.path, b"") + data[:ncut]
        _fs.tick("write")
        _fs.files[self.path] = _fs.files.get(self.path, b"") + data

    def fileno(self):
        return 3

    def close(self):
        self.flush()


def fake_open(path, mode):
    _fs.tick("open")
    if "a" in mode:
        _fs.files.setdefault(path, b"")
        return WFile(path)
    return io.BytesIO(_fs.files[path])


class OS:
    O_CREAT = O_EXCL = O_WRONLY = 0
    path = types.SimpleNamespace(exists=lambda p: p in _fs.files)

    def _create(self, dst, what):
        _fs.tick(what)
        if dst in _fs.links:
            raise OSError(errno.EEXIST, "exists")
        _fs.gen += 1
        _fs.links[dst] = True
        _fs.mtime[dst] = _fs.gen

    def symlink(self, src, dst):
        self._create(dst, "lock-create")

    def open(self, p, flags):
        self._create(p, "lock-create")
        return 7

    def close(self, fd):
        _fs.tick("lock-close-fd")

    def stat(self, p):
        if _fs.dead:
            raise Crash(_fs.where)
        if p in _fs.links:
            return types.SimpleNamespace(st_mtime=_fs.mtime.get(p, 0), st_size=0)
        if p in _fs.files:
            return types.SimpleNamespace(st_size=len(_fs.files[p]), st_mtime=0)
        raise OSError(errno.ENOENT, "gone")

    def rename(self, a, b):
        _fs.tick("rename")
        if a not in _fs.links:
            raise OSError(errno.ENOENT, "gone")
        _fs.links[b] = _fs.links.pop(a)

    def unlink(self, a):
        _fs.tick("unlink")
        _fs.links.pop(a, None)

    def fsync(self, fd):
        _fs.tick("fsync")


class TIME:
    def monotonic(self):
        _fs.clock += 40.0          # survivors wait out the grace period
        return _fs.clock

    def sleep(self, s):
        pass


def REC(i):
    return {"op_code": 2, "worker_id": f"w{i}", "study_id": 0, "user_attr": {"k": i}}


P = "/x/j.log"


def make_crash_body(lock_cls_name, n_before, n_after):
    def body():
        global _fs
        import warnings
        warnings.simplefilter("ignore")
        jf.os, jf.time, jf.open = OS(), TIME(), fake_open
        _fs = FS()
        _fs.files[P] = b""
        mk = lambda: jf.JournalFileBackend(P, lock_obj=getattr(jf, lock_cls_name)(P))     # noqa: E731
        acknowledged = []
        old_reader = mk()
        for i in range(n_before):
            mk().append_logs([REC(i)])
            acknowledged.append(REC(i))
        old_reader.read_logs(0)                       # a survivor whose offset cache reflects an earlier read
        # the writer that dies
        _fs.calls = 0
        _fs.unbuffered = bool(sx.choose(2, "record_exceeds_io_buffer"))
        n_calls = (9 if "Open" in lock_cls_name else 8) + (1 if _fs.unbuffered else 0)
        ca = sx.choose(n_calls, "crash_at_call")
        _fs.crash_at = 1 + ca
        cutinfo = {}

        def cut(n):
            c = int(sx.sym_int("bytes_delivered", 0, n)) if False else sx.choose(n + 1, "bytes_delivered")
            cutinfo["c"] = "none" if c == 0 else "all" if c == n else "torn"
            cutinfo["bytes"] = c
            return c
        _fs.cut = cut
        interrupted = REC(100)
        crashed = None
        try:
            mk().append_logs([interrupted])
            acknowledged.append(interrupted)          # the call returned: it is acknowledged
        except Crash:
            crashed = _fs.where
        _fs.crash_at = None
        _fs.dead = False
        _fs.unbuffered = False
        sx.note("scenario", dict(lock=lock_cls_name, crashed_during=crashed, write=cutinfo.get("c", "-"), bytes=cutinfo.get("bytes")))
        sx.reach("crashed" if crashed else "not-crashed")
        # survivors: the old reader's backend and a fresh opener keep appending and reading through the REAL code
        survivors = [old_reader, mk()]
        try:
            for j in range(n_after):
                s = survivors[j % 2]
                s.append_logs([REC(200 + j)])
                acknowledged.append(REC(200 + j))
                for reader in (survivors[0], survivors[1], mk()):
                    got = reader.read_logs(0)
                    body_ = [g for g in got if g != interrupted]
                    assert body_ == [a for a in acknowledged if a != interrupted], \
                        f"after a crash during {crashed} ({cutinfo.get('c', '-')} write) acknowledged appends are not all visible in order: {len(body_)} of {len(acknowledged)}"
                    assert got.count(interrupted) <= 1, "interrupted record duplicated"
                # cached offsets agree with a fresh reader
                k = len(acknowledged) - 1
                assert survivors[0].read_logs(k)[-1:] == mk().read_logs(k)[-1:], "cached offsets disagree with a fresh reader"
        except json.JSONDecodeError as e:
            raise AssertionError(f"after a crash during {crashed} ({cutinfo.get('c', '-')} write) read_logs raises JSONDecodeError for every worker: {e}")
        except RuntimeError as e:
            raise AssertionError(f"after a crash during {crashed}: survivor call raised RuntimeError({e})")
        return True
    return body


def storage_level_body():
    """the same crash model under the real JournalStorage: acknowledged storage calls survive, the interrupted one is all-or-nothing"""
    global _fs
    import warnings
    warnings.simplefilter("ignore")
    from optuna.storages import JournalStorage
    from optuna.study import StudyDirection
    jf.os, jf.time, jf.open = OS(), TIME(), fake_open
    _fs = FS()
    _fs.files[P] = b""
    lock_cls_name = sx.choose(["JournalFileSymlinkLock", "JournalFileOpenLock"], "lock")
    mk = lambda: JournalStorage(jf.JournalFileBackend(P, lock_obj=getattr(jf, lock_cls_name)(P)))     # noqa: E731
    w = mk()
    sid = w.create_new_study([StudyDirection.MINIMIZE], "s")
    tid = w.create_new_trial(sid)
    w.set_trial_user_attr(tid, "acknowledged", 1)
    victim_call = sx.choose(["set_trial_user_attr", "set_trial_state_values", "create_new_trial"], "interrupted_call")
    _fs.calls = 0
    _fs.unbuffered = bool(sx.choose(2, "record_exceeds_io_buffer"))
    n_calls = (9 if "Open" in lock_cls_name else 8) + (1 if _fs.unbuffered else 0)
    _fs.crash_at = 1 + sx.choose(n_calls, "crash_at_call")
    cutinfo = {}

    def cut(n):
        c = sx.choose([0, 1, n // 2, n - 1, n], "bytes_delivered")
        cutinfo["c"] = "none" if c == 0 else "all" if c == n else "torn"
        return c
    _fs.cut = cut
    crashed = None
    try:
        if victim_call == "set_trial_user_attr":
            w.set_trial_user_attr(tid, "interrupted", 2)
        elif victim_call == "set_trial_state_values":
            w.set_trial_state_values(tid, optuna_TrialState.COMPLETE, [1.0])
        else:
            w.create_new_trial(sid)
    except Crash:
        crashed = _fs.where
    _fs.crash_at = None
    _fs.dead = False
    _fs.unbuffered = False
    sx.note("scenario", dict(lock=lock_cls_name, crashed_during=crashed, write=cutinfo.get("c", "-"), call=victim_call))
    sx.reach("crashed" if crashed else "not-crashed")
    try:
        a = mk()                                   # a fresh opener
        t0 = a.get_all_trials(sid)[0]
        assert t0.user_attrs.get("acknowledged") == 1, "an acknowledged storage call is not visible after the crash"
        if victim_call == "set_trial_user_attr":
            assert t0.user_attrs.get("interrupted") in (None, 2)
        elif victim_call == "set_trial_state_values":
            assert (t0.state, t0.values) in ((optuna_TrialState.RUNNING, None), (optuna_TrialState.COMPLETE, [1.0])), "interrupted state change half applied"
        else:
            assert len(a.get_all_trials(sid)) in (1, 2)
        n_before = len(a.get_all_trials(sid))
        # survivors keep writing; everything they write is visible to everyone
        b = mk()
        t_new = a.create_new_trial(sid)
        a.set_trial_user_attr(t_new, "after", 3)
        for reader in (a, b, mk()):
            ts = reader.get_all_trials(sid)
            assert len(ts) == n_before + 1 and ts[-1].user_attrs.get("after") == 3, \
                f"after a crash during {crashed} ({cutinfo.get('c', '-')} write) acknowledged appends are not all visible in order: {[t.user_attrs for t in ts]}"
    except json.JSONDecodeError as e:
        raise AssertionError(f"after a crash during {crashed} ({cutinfo.get('c', '-')} write) read_logs raises JSONDecodeError for every worker: {e}")
    return True


def setup(concrete):
    pass


def make_takeover_bmc(lock_cls, K=2, depth=12):
    def run():
        from envsum import lockbmc as L
        t0 = time.time()
        aut = L.extract(lock_cls)
        res = {"queries": 0, "solver_s": 0.0, "states": len(aut["nodes"]), "transitions": sum(len(e) for e in aut["edges"].values()), "samples": [], "cex": []}
        if aut["conflicts"] or not aut["flow_ok"]:
            res["inconclusive"] = "call-site quotient rejected"
            return res
        r = L.bmc(aut, K, depth, crash=True, rounds=1, step_delay=None, hold_bound=2, timeout_ms=1500000)
        res["queries"], res["solver_s"] = r["queries"], r["solver_s"]
        res["result"] = {k: v for k, v in r["result"].items() if not k.endswith("_trace")}
        out = r["result"]
        validated = 0
        for prop in ("mutual_exclusion", "release_raises"):
            if out[prop] == "sat":
                tr = out[prop + "_trace"]
                viol, _ = L.replay(lock_cls, tr, K, True, 1)
                validated += 1
                if viol:
                    res["cex"].append({"key": f"{lock_cls}:dead-holder:two-survivors-take-over:{prop}", "pre_replayed": True, "values": {}, "choices": [],
                                       "notes": {"schedule": [(x["p"], x["call"], x["now"]) for x in tr]}, "kind": "bmc",
                                       "message": f"after the lock holder died: {viol}; schedule {[(x['p'], x['call'], x['now']) for x in tr]}"})
                else:
                    res["inconclusive"] = f"{prop}: BMC schedule did not reproduce on the real code"
            elif out[prop] != "unsat":
                res["inconclusive"] = f"{prop}: {out[prop]}"
        if out["witness_all_done"] != "sat":
            # bounded liveness: survivors must be able to take the stale lock over and finish
            res["cex"].append({"key": f"{lock_cls}:dead-holder:survivors-never-finish", "pre_replayed": False, "values": {}, "choices": [], "notes": {}, "kind": "bmc",
                               "message": f"with a dead lock holder no schedule lets the survivors finish within {depth} macro steps ({out['witness_all_done']})"})
        res["traces_validated_against_impl"] = validated
        res["samples"] = [{"dead_holder": True, "survivors": K, "result": res["result"]}]
        res["wall_s"] = time.time() - t0
        return res
    return run


def survivor_progress_body():
    """a single survivor overcomes a dead holder's lock through the real grace-period path and appends (bounded liveness, concrete)"""
    global _fs
    import warnings
    warnings.simplefilter("ignore")
    lock_cls_name = sx.choose(["JournalFileSymlinkLock", "JournalFileOpenLock"], "lock")
    jf.os, jf.time, jf.open = OS(), TIME(), fake_open
    _fs = FS()
    _fs.files[P] = b""
    _fs.links[P + jf.LOCK_FILE_SUFFIX] = True           # the dead holder's lock
    _fs.mtime[P + jf.LOCK_FILE_SUFFIX] = 0
    calls = {"n": 0}
    orig_tick = _fs.tick

    def tick(what):
        calls["n"] += 1
        assert calls["n"] < 200, "survivor still blocked by the dead holder's lock after 200 file-system calls (grace period long expired)"
        return orig_tick(what)
    _fs.tick = tick
    be = jf.JournalFileBackend(P, lock_obj=getattr(jf, lock_cls_name)(P))
    be.append_logs([REC(1)])
    sx.reach("appended")
    assert be.read_logs(0) == [REC(1)]
    return True


CODE = [jf.JournalFileBackend.append_logs, jf.JournalFileBackend.read_logs, jf.JournalFileSymlinkLock.acquire, jf.JournalFileSymlinkLock.release,
        jf.JournalFileOpenLock.acquire, jf.JournalFileOpenLock.release, jf.get_lock_file]


def classify(c):
    sc = c.get("notes", {}).get("scenario", {})
    if sc:
        m = c["message"]
        kind = ("JSONDecodeError-for-everyone" if "JSONDecodeError" in m else "acknowledged-append-lost" if "not all visible" in m else
                "survivor-create_new_trial-swallowed" if ("AttributeError" in m and "_storage.py" in m) else m[:60])
        return f"crash-during-{sc.get('crashed_during')}:{sc.get('write')}-write:{kind}"
    return c["message"][:100]


def obligations(tier):
    q = tier == "quick"
    obs = []
    for cls in ("JournalFileSymlinkLock", "JournalFileOpenLock"):
        short = "symlink" if "Symlink" in cls else "open"
        obs.append(Obligation(f"crash-append-{short}", make_crash_body(cls, 1 if q else 2, 2 if q else 3), setup, CODE,
                              bounds=dict(acknowledged_before=1 if q else 2, crash_points="every system call of append_logs", torn_bytes="every length",
                                          survivors="old reader + fresh opener", appends_after=2 if q else 3),
                              shard_depth=2, budget_s=900, classify=classify, require_reach=["crashed"],
                              describe=f"{cls}: writer dies at any system call / any byte of its write; survivors append and read"))
        obs.append(Obligation(f"takeover-bmc-{short}", None, None, CODE, custom=make_takeover_bmc(cls),
                              bounds=dict(dead_holder=1, survivors=2, macro_steps=12, timing="arbitrary"),
                              describe=f"{cls}: two survivors and a dead lock holder, all schedules and timings (BMC, replayed)"))
    if not q:
        for cls in ("JournalFileSymlinkLock", "JournalFileOpenLock"):
            short = "symlink" if "Symlink" in cls else "open"
            obs.append(Obligation(f"takeover-bmc-{short}-k3", None, None, CODE, custom=make_takeover_bmc(cls, 3, 14),
                                  bounds=dict(dead_holder=1, survivors=3, macro_steps=14, timing="arbitrary"),
                                  describe=f"{cls}: three survivors and a dead lock holder (BMC, replayed)"))
    from harness.c07 import make_bmc
    for cls in ("JournalFileSymlinkLock", "JournalFileOpenLock"):
        short = "symlink" if "Symlink" in cls else "open"
        obs.append(Obligation(f"interrupted-waiter-bmc-{short}", None, None, CODE, custom=make_bmc(cls, 2, 10, 1, 2, 2, interrupts=True),
                              bounds=dict(processes=2, macro_steps=10, fault="KeyboardInterrupt (SIGINT) raised by time.sleep in the waiting worker, which then dies"),
                              describe=f"{cls}: a worker killed by SIGINT while it waits for the lock (its finally-blocks run) does not disturb the holder: "
                                       "no release() error, no double holder, for all schedules (BMC, replayed)"))
    obs.append(Obligation("storage-level", storage_level_body, setup, CODE, bounds=dict(acknowledged_calls=3, interrupted_calls=3, crash_points="every system call", torn_bytes=[0, 1, "n/2", "n-1", "n"]),
                          shard_depth=3, budget_s=600, classify=classify, require_reach=["crashed"],
                          describe="real JournalStorage on the file backend: acknowledged calls survive, interrupted call all-or-nothing, survivors keep working"))
    obs.append(Obligation("survivor-progress", survivor_progress_body, setup, CODE, budget_s=120, classify=classify, require_reach=["appended"],
                          describe="a survivor overcomes a dead holder's lock and appends (both lock classes)"))
    return obs
