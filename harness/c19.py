"""C19 — stale-trial recovery fails and retries each dead trial at most once (DESIGN.md §3 C19)."""
from __future__ import annotations

import contextlib
import datetime
import threading

import optuna
from optuna.storages import InMemoryStorage, RetryFailedTrialCallback, RDBStorage
from optuna.storages import _heartbeat as hb_mod
from optuna.storages._heartbeat import BaseHeartbeat, fail_stale_trials
from optuna.storages._rdb import storage as rdb_mod
from optuna.trial import TrialState

import symex as sx
from symex import Obligation
from symex.sched import Sched, Stepwise

META = {
    "level": "other",
    "explanation": (
        "Bounded symbolic execution of the real fail_stale_trials + RetryFailedTrialCallback (and the real staleness arithmetic of "
        "RDBStorage._get_stale_trial_ids, run over a fake SQL session) on a heartbeat-capable in-memory storage. Heartbeat instants, "
        "the clock, heartbeat_interval and grace_period are z3 reals/ints; which trials are RUNNING with/without heartbeat row, finished "
        "or WAITING, whether a trial is itself a retry, and max_retry are forks; two workers run the sweep in hand-over-hand threads "
        "with the next storage call to execute chosen by the explorer (all interleavings of atomic storage calls), optionally with one "
        "worker crashing at any point. z3 discharges: FAIL iff stale, one winner, callback at most once per failure, at most one retry "
        "per failure and chain length <= max_retry, retry carries params/attrs/history, others untouched."
    ),
    "assumptions": ["each storage call is atomic (as an RDB transaction is)",
                    "SQL of RDBStorage._get_stale_trial_ids replaced by a fake session returning the RUNNING trials of the study with their "
                    "heartbeat rows; datetimes are symbolic instants (seconds) with timedelta semantics (days/seconds normalisation)"],
    "outside": ["the SQL query and the DB clock", "the heartbeat thread itself", "more than 2 workers"],
}


# ------------------------------------------------------------------------------------------ symbolic datetimes
class SymTD:
    """timedelta over a symbolic number of seconds"""

    def __init__(self, total):
        self.total = total

    def total_seconds(self):
        return self.total

    def _other(self, o):
        if isinstance(o, SymTD):
            return o.total
        if isinstance(o, datetime.timedelta):
            return o.total_seconds()
        return NotImplemented

    def __gt__(self, o):
        return self.total > self._other(o)

    def __ge__(self, o):
        return self.total >= self._other(o)

    def __lt__(self, o):
        return self.total < self._other(o)

    def __le__(self, o):
        return self.total <= self._other(o)

    @property
    def days(self):
        import math
        t = self.total
        return sx.mathshim.floor(t / 86400) if sx.is_symnum(t) else math.floor(t / 86400)

    @property
    def seconds(self):
        # normalised like datetime.timedelta: 0 <= seconds < 86400
        import math
        t = self.total
        whole = sx.mathshim.floor(t) if sx.is_symnum(t) else math.floor(t)
        return whole - self.days * 86400


class SymDT:
    def __init__(self, t):
        self.t = t

    def replace(self, tzinfo=None):
        return self

    def __sub__(self, o):
        return SymTD(self.t - o.t)


def td_shim(*a, **kw):
    vals = list(a) + list(kw.values())
    if any(sx.is_sym(v) for v in vals):
        assert list(kw) == ["seconds"] and not a
        return SymTD(kw["seconds"])
    if any(isinstance(v, float) for v in vals) or True:
        return datetime.timedelta(*a, **kw) if not kw or list(kw) != ["seconds"] else SymTD(kw["seconds"])


class _Row:
    def __init__(self, hb):
        self.heartbeat = hb


class _TrialModel:
    def __init__(self, trial_id, beats):
        self.trial_id = trial_id
        self.heartbeats = beats


class _Query:
    def __init__(self, rows):
        self._rows = rows

    def options(self, *a):
        return self

    def filter(self, *a):
        return self

    def all(self):
        return self._rows


class _Scalar:
    def __init__(self, v):
        self.v = v

    def scalar(self):
        return self.v


class FakeSession:
    def __init__(self, storage, study_id):
        self.storage = storage
        self.study_id = study_id

    def execute(self, *_):
        return _Scalar(SymDT(self.storage.now))

    def query(self, *_):
        rows = []
        for t in InMemoryStorage.get_all_trials(self.storage, self.study_id, deepcopy=False, states=(TrialState.RUNNING,)):
            beats = [_Row(SymDT(self.storage.beats[t._trial_id]))] if t._trial_id in self.storage.beats else []
            rows.append(_TrialModel(t._trial_id, beats))
        return _Query(rows)


class HBStorage(InMemoryStorage, BaseHeartbeat):
    """heartbeat-capable storage; staleness decided by the REAL RDBStorage._get_stale_trial_ids over a fake SQL session"""

    def __init__(self, cb, heartbeat_interval, grace_period):
        super().__init__()
        self.beats = {}
        self.now = None
        self.cb = cb
        self.heartbeat_interval = heartbeat_interval
        self.grace_period = grace_period
        self.scoped_session = None
        self._sid_for_session = None

    def record_heartbeat(self, trial_id):
        self.beats[trial_id] = self.now

    def _get_stale_trial_ids(self, study_id):
        self._sid_for_session = study_id
        return RDBStorage._get_stale_trial_ids(self, study_id)

    def get_heartbeat_interval(self):
        return 1

    def get_failed_trial_callback(self):
        return self.cb


@contextlib.contextmanager
def fake_scoped_session(scoped_session, ignore_integrity_error=False):
    yield FakeSession(_CURRENT["storage"], _CURRENT["storage"]._sid_for_session)


_CURRENT = {"storage": None}


class StepwiseHB(Stepwise, BaseHeartbeat):
    def _step(self, name, *a):
        if threading.current_thread() is not threading.main_thread():
            self._s.yield_()
        return getattr(self._i, name)(*a)

    def record_heartbeat(self, trial_id):
        return self._step("record_heartbeat", trial_id)

    def _get_stale_trial_ids(self, study_id):
        return self._step("_get_stale_trial_ids", study_id)

    def get_heartbeat_interval(self):
        return self._i.get_heartbeat_interval()

    def get_failed_trial_callback(self):
        return self._i.get_failed_trial_callback()


def setup(concrete):
    rdb_mod._create_scoped_session = fake_scoped_session
    rdb_mod.timedelta = td_shim
    import sqlalchemy.orm
    from optuna.storages._rdb import models as _models
    _models.TrialHeartbeatModel  # noqa: B018  (force the lazy module to load)
    sqlalchemy.orm.configure_mappers()       # TrialModel.heartbeats is a backref, defined when mappers are configured
    if not concrete:
        from stubs.shims import shim_frozen_trial, shim_tell
        shim_frozen_trial()
        shim_tell()


KINDS = ["running+beat", "running-nobeat", "finished+beat", "waiting", "running+beat+isretry"]


def make_body(n_trials, n_workers, allow_crash, with_ask, full=False):
    def body():
        calls = []
        max_retry = sx.choose([None, 0, 1], "max_retry")
        inherit = bool(sx.choose(2, "inherit_intermediate_values")) if full else False
        inner_cb = RetryFailedTrialCallback(max_retry=max_retry, inherit_intermediate_values=inherit)

        def cb(study, trial):
            calls.append(trial.number)
            inner_cb(study, trial)
        hbi = sx.sym_int("heartbeat_interval", 1, None)
        has_grace = bool(sx.choose(2, "has_grace_period")) if full else (not allow_crash)
        grace = sx.sym_int("grace_period", 1, None) if has_grace else None
        storage = HBStorage(cb, hbi, grace)
        _CURRENT["storage"] = storage
        eff_grace = grace if has_grace else 2 * hbi
        study = optuna.create_study(storage=storage, sampler=optuna.samplers.RandomSampler(seed=0))
        storage.now = sx.sym_real("now")
        stale_cond = {}
        chain = {}
        for i in range(n_trials):
            kind = sx.choose(KINDS if (i > 0 or full) else ["running+beat", "running+beat+isretry"], f"t{i}.kind")
            if kind == "waiting":
                study.enqueue_trial({"x": 0.5})
                continue
            if kind == "running+beat+isretry":
                # a retry of an (imaginary) earlier trial 100+i that has been claimed and is now running
                tmpl = optuna.create_trial(state=TrialState.WAITING, user_attrs={"u": i},
                                           system_attrs={"failed_trial": 100 + i, "retry_history": [100 + i], "fixed_params": {"x": 0.25, "y": 0.75}})
                tid = storage.create_new_trial(study._study_id, tmpl)
                assert storage.set_trial_state_values(tid, TrialState.RUNNING)
                t = optuna.Trial(study, tid)
                t.suggest_float("x", 0, 1)
                chain[t.number] = [100 + i]
            else:
                t = optuna.Trial(study, storage.create_new_trial(study._study_id))     # not ask(): it would claim a WAITING trial
                t.suggest_float("x", 0, 1)
                t.set_user_attr("u", i)
                chain[t.number] = []
            t.report(0.5, 0)
            if kind in ("running+beat", "finished+beat", "running+beat+isretry"):
                storage.beats[t._trial_id] = sx.sym_real(f"beat{i}")
            if kind == "finished+beat":
                study.tell(t, 1.0)
            if kind in ("running+beat", "running+beat+isretry"):
                stale_cond[t.number] = (storage.now - storage.beats[t._trial_id]) > eff_grace
        before = {t.number: (t.state, dict(t.params), dict(t.user_attrs), dict(t.distributions), dict(t.intermediate_values))
                  for t in storage.get_all_trials(study._study_id)}
        # queued parameter values the dead worker had not drawn yet (here 'y') exist only in the trial's fixed_params
        before_fixed = {t.number: dict(t.system_attrs["fixed_params"]) for t in storage.get_all_trials(study._study_id) if "fixed_params" in t.system_attrs}
        sched = Sched(allow_crash=allow_crash)
        raw = storage
        study._storage = StepwiseHB(raw, sched)
        wins = []

        def worker():
            fail_stale_trials(study)
            if with_ask:
                t = study.ask()
                return t.number
        ws = [sched.spawn(worker, f"w{k}") for k in range(n_workers)]
        sched.run()
        study._storage = raw
        sx.note("scenario", dict(max_retry=max_retry, schedule=sched.trace, crashed=sched.crashed,
                                 kinds=[sx.cur().choices] if False else None))
        for w in ws:
            assert "exc" not in w, f"worker raised {w.get('exc')!r}"
        after = storage.get_all_trials(study._study_id)
        conds = []
        crashed = bool(sched.crashed)
        sx.reach("swept")
        if crashed:
            sx.reach("crash")
        for num, stale in stale_cond.items():
            is_fail = after[num].state == TrialState.FAIL
            if is_fail:
                sx.reach("failed-a-stale-trial")
            conds.append(sx.iff(stale, is_fail))                         # failed iff stale (a survivor always completes the sweep)
            assert calls.count(num) <= 1, f"failure callback ran {calls.count(num)} times for trial {num}"
            if not crashed:
                assert (calls.count(num) == 1) == is_fail, f"callback/failed mismatch for trial {num}: calls={calls}, failed={is_fail}"
        for num, (st, params, ua, dists, ivs) in before.items():
            if num not in stale_cond:
                assert after[num].state == st or (with_ask and st == TrialState.WAITING and after[num].state == TrialState.RUNNING), \
                    f"untouched trial {num} changed state {st} -> {after[num].state}"
                assert calls.count(num) == 0, f"callback ran for trial {num} that was never stale"
        asked = [w["res"] for w in ws if w["res"] is not None]
        assert len(asked) == len(set(asked)), f"two workers got the same trial from ask(): {asked}"
        retries = [t for t in after if t.number >= len(before) and "failed_trial" in t.system_attrs]
        by_src = {}
        for r in retries:
            src = r.system_attrs["retry_history"][-1]
            by_src.setdefault(src, []).append(r)
        for src, rs in by_src.items():
            assert len(rs) <= 1, f"{len(rs)} retries enqueued for failed trial {src}"
            r = rs[0]
            assert src in calls, f"retry for trial {src} without a callback"
            hist = chain[src] + [src]
            assert r.system_attrs["retry_history"] == hist, f"retry history {r.system_attrs['retry_history']} != {hist}"
            assert r.system_attrs["failed_trial"] == hist[0], f"failed_trial {r.system_attrs['failed_trial']} != first of chain {hist[0]}"
            assert max_retry is None or len(hist) <= max_retry, f"chain {hist} longer than max_retry={max_retry}"
            assert r.state in (TrialState.WAITING, TrialState.RUNNING)
            assert dict(r.params) == before[src][1] and dict(r.distributions) == before[src][3], "retry lost params/distributions"
            assert {k: v for k, v in r.user_attrs.items()} == before[src][2], "retry lost user attrs"
            if src in before_fixed:
                assert r.system_attrs.get("fixed_params") == before_fixed[src], \
                    f"retry lost the queued parameter values its predecessor had not drawn yet: {r.system_attrs.get('fixed_params')} vs {before_fixed[src]}"
            assert dict(r.intermediate_values) == (before[src][4] if inherit else {}), "intermediate values inheritance"
            sx.reach("retry-checked")
        for num in calls:
            hist = chain[num] + [num]
            should_retry = max_retry is None or len(hist) <= max_retry
            if crashed:      # the callback's worker may have died before its add_trial: at most one retry, possibly none
                assert (num in by_src) <= should_retry, f"callback for {num}: retry enqueued although chain is exhausted"
            else:
                assert (num in by_src) == should_retry, f"callback for {num}: retry expected={should_retry}, enqueued={num in by_src}"
        return sx.all_of(conds) if conds else True
    return body


CODE = [fail_stale_trials, hb_mod.is_heartbeat_enabled, RetryFailedTrialCallback.__call__, RDBStorage._get_stale_trial_ids,
        optuna.study.Study.add_trial, optuna.study.Study.ask, optuna.study.Study._pop_waiting_trial_id,
        InMemoryStorage.set_trial_state_values]


def classify(c):
    import re
    m = re.sub(r"at [\w\.]+:\d+: ", "", c["message"])
    m = re.sub(r"\[[^\]]*\]|\d+", "_", m)
    return m[:90]


def obligations(tier):
    q = tier == "quick"
    obs = [
        Obligation("sweep-2workers", make_body(2, 2, False, False), setup, CODE,
                   bounds=dict(trials=2, kinds=KINDS, workers=2, max_retry=[None, 0, 1], clock="z3 reals", grace="z3 ints"),
                   shard_depth=5, budget_s=900, classify=classify, require_reach=["swept", "failed-a-stale-trial", "retry-checked"],
                   describe="two workers sweep concurrently, every interleaving of storage calls"),
        Obligation("sweep-crash", make_body(1 if q else 2, 2, True, False), setup, CODE,
                   bounds=dict(trials=1 if q else 2, workers=2, crash="one worker at any storage call"),
                   shard_depth=5, budget_s=900, classify=classify, require_reach=["swept", "crash", "failed-a-stale-trial"],
                   describe="same with one worker dying at any point of its sweep"),
        Obligation("sweep-then-ask", make_body(1 if q else 2, 2, False, True), setup, CODE,
                   bounds=dict(trials=1 if q else 2, workers=2, then="ask()"),
                   shard_depth=6, budget_s=1200, classify=classify, require_reach=["swept", "retry-checked"],
                   describe="sweep followed by ask() (as _run_trial does): retries are claimed by at most one worker"),
        Obligation("sweep-1worker-full", make_body(2, 1, False, False, full=True), setup, CODE,
                   bounds=dict(trials=2, workers=1, kinds="all x all", inherit_intermediate_values=[True, False], grace_period=["None", "z3 int"]),
                   shard_depth=5, budget_s=900, classify=classify, require_reach=["swept", "failed-a-stale-trial", "retry-checked"],
                   describe="single worker, full configuration lattice (staleness arithmetic, retry contents)"),
    ]
    if not q:
        obs.append(Obligation("sweep-3trials", make_body(3, 2, False, False), setup, CODE, bounds=dict(trials=3, workers=2),
                              shard_depth=7, budget_s=3000, classify=classify, require_reach=["swept", "failed-a-stale-trial", "retry-checked"],
                              describe="three trials"))
        obs.append(Obligation("sweep-2workers-full", make_body(2, 2, True, False, full=True), setup, CODE, bounds=dict(trials=2, workers=2, crash=True, full=True),
                              shard_depth=7, budget_s=3000, classify=classify, require_reach=["swept", "failed-a-stale-trial", "retry-checked"],
                              describe="two workers, crash, full lattice"))
    return obs
