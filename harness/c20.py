"""C20 — objects read from a study are snapshots: later writes never change them (DESIGN.md §3 C20)."""
from __future__ import annotations

import copy

import optuna
from optuna.storages import InMemoryStorage, JournalStorage
from optuna.storages._cached_storage import _CachedStorage
from optuna.trial import FrozenTrial, TrialState, create_trial, Trial
from optuna.study import Study

from optuna.study._frozen import FrozenStudy
from optuna.study import StudySummary

import symex as sx
from symex import Obligation
from stubs.fake_rdb import FakeRDB
from stubs.journal_list import ListBackend

META = {
    "level": "other",
    "explanation": (
        "Bounded symbolic execution over the finite product (backend x getter x 1-2 setters) with symbolic aliasing choices "
        "(same/other trial, same/other key) and z3-real objective/intermediate values: the object(s) returned by the getter are "
        "snapshotted structurally, the real setters of Study/Trial/storage are run, and the earlier objects must still equal their "
        "snapshots; separately every field of a deepcopy=True result is mutated and a fresh read must be unaffected."
    ),
    "assumptions": ["backends: InMemoryStorage, JournalStorage over an in-memory list backend (real json), _CachedStorage over the fake RDB",
                    "attribute *dictionaries* are checked for Study-level getters only, as the statement says; trial objects for study and storage getters"],
    "outside": ["mutation by another thread mid-read (C03)", "RDB / gRPC objects (fresh per call by construction)"],
}

BACKENDS = ["inmemory", "journal", "cached"]


def mk_storage(kind):
    if kind == "inmemory":
        return InMemoryStorage()
    if kind == "journal":
        return JournalStorage(ListBackend())
    return _CachedStorage(FakeRDB())


def snap(o):
    """structural snapshot that keeps proxies by identity"""
    if isinstance(o, FrozenTrial):
        return ("FT", o.number, o.state, snap(o._values), snap(o.params), snap(o.distributions), snap(o.user_attrs),
                snap(o.system_attrs), snap(o.intermediate_values), o.datetime_start, o.datetime_complete, o._trial_id)
    if isinstance(o, (FrozenStudy, StudySummary)):
        return ("ST", o.study_name, snap(o.user_attrs), snap(o.system_attrs), snap(getattr(o, "best_trial", None)),
                tuple(getattr(o, "directions", None) or getattr(o, "_directions", ())))
    if isinstance(o, dict):
        return ("dict", tuple((k, snap(v)) for k, v in o.items()))
    if isinstance(o, (list, tuple)):
        return ("seq", tuple(snap(v) for v in o))
    return o


def same(a, b, conds):
    if isinstance(a, tuple) and isinstance(b, tuple):
        if len(a) != len(b):
            return False
        return all(same(x, y, conds) for x, y in zip(a, b))
    if sx.is_symnum(a) or sx.is_symnum(b) or isinstance(a, float) or isinstance(b, float):
        r = sx.eq_nan(a, b)
        if r is True or r is False:
            return r
        conds.append(r)
        return True
    return a == b


GETTERS = ["study.trials", "study.get_trials(deepcopy=False)", "study.get_trials(deepcopy=True)", "storage.get_trial",
           "storage.get_all_trials(deepcopy=False)", "storage.get_all_trials(states)", "study.best_trial",
           "study.user_attrs", "study.system_attrs", "trial.params", "trial.distributions", "trial.user_attrs", "trial.system_attrs",
           "frozen-from-tell", "study.get_trials(states=(WAITING,))", "storage.get_all_trials(states=(WAITING,), deepcopy=False)",
           "study.get_trials(states=[WAITING, RUNNING])", "storage.get_all_studies", "get_all_study_summaries"]

SETTERS = ["trial.suggest_float(new)", "trial.suggest_int(new)", "trial.suggest_categorical(new)", "trial.suggest_float(same)",
           "trial.report", "trial.set_user_attr(same key)", "trial.set_user_attr(new key)", "trial.set_system_attr",
           "study.tell(trial)", "study.tell(trial, PRUNED)", "study.set_user_attr(same key)", "study.set_user_attr(new key)",
           "study.set_system_attr", "study.enqueue_trial", "study.add_trial", "study.ask", "storage.set_trial_param",
           "storage.set_trial_user_attr", "storage.set_trial_intermediate_value", "storage.set_trial_state_values(FAIL)",
           "other.set_user_attr", "other.suggest_float", "study.ask+suggest(queued)", "other.report(first)"]


def run_setter(name, study, trial, other, i):
    st = study._storage
    if name == "trial.suggest_float(new)":
        trial.suggest_float(f"nf{i}", 0, 1)
    elif name == "trial.suggest_int(new)":
        trial.suggest_int(f"ni{i}", 0, 5)
    elif name == "trial.suggest_categorical(new)":
        trial.suggest_categorical(f"nc{i}", ["a", "b"])
    elif name == "trial.suggest_float(same)":
        trial.suggest_float("x", 0, 1)
    elif name == "trial.report":
        trial.report(sx.sym_float(f"rep{i}", ("finite", "nan")), 5 + i)
    elif name == "trial.set_user_attr(same key)":
        trial.set_user_attr("u", {"changed": i})
    elif name == "trial.set_user_attr(new key)":
        trial.set_user_attr(f"u{i}", [i])
    elif name == "trial.set_system_attr":
        import warnings
        with warnings.catch_warnings():
            warnings.simplefilter("ignore")
            trial.set_system_attr(f"sys{i}", i)
    elif name == "study.tell(trial)":
        study.tell(trial, sx.sym_real(f"tell{i}"))
    elif name == "study.tell(trial, PRUNED)":
        study.tell(trial, state=TrialState.PRUNED)
    elif name == "study.set_user_attr(same key)":
        study.set_user_attr("su", {"changed": i})
    elif name == "study.set_user_attr(new key)":
        study.set_user_attr(f"su{i}", i)
    elif name == "study.set_system_attr":
        st.set_study_system_attr(study._study_id, "ss", {"changed": i})
    elif name == "study.enqueue_trial":
        study.enqueue_trial({"x": 0.25}, user_attrs={"q": i})
    elif name == "study.add_trial":
        study.add_trial(create_trial(value=sx.sym_real(f"add{i}"), params={"x": 0.5},
                                     distributions={"x": optuna.distributions.FloatDistribution(0, 1)}))
    elif name == "study.ask":
        study.ask()
    elif name == "storage.set_trial_param":
        st.set_trial_param(trial._trial_id, f"sp{i}", 0.5, optuna.distributions.FloatDistribution(0, 1))
    elif name == "storage.set_trial_user_attr":
        st.set_trial_user_attr(trial._trial_id, "u", "storage-level")
    elif name == "storage.set_trial_intermediate_value":
        st.set_trial_intermediate_value(trial._trial_id, 0, 9.0)
    elif name == "storage.set_trial_state_values(FAIL)":
        st.set_trial_state_values(trial._trial_id, TrialState.FAIL)
    elif name == "study.ask+suggest(queued)":
        t = study.ask()                      # claims the WAITING trial
        t.suggest_float("x", 0, 1)
        t.set_user_attr("queued", "claimed")
    elif name == "other.set_user_attr":
        other.set_user_attr("u", "other")
    elif name == "other.suggest_float":
        other.suggest_float("x", 0, 1)
    elif name == "other.report(first)":
        other.report(sx.sym_float(f"orep{i}", ("finite", "nan")), i)       # the first report of a trial that has none yet
    else:
        raise KeyError(name)


def seed(kind, symbolic_values):
    storage = mk_storage(kind)
    study = optuna.create_study(storage=storage, sampler=optuna.samplers.RandomSampler(seed=1), direction="minimize")
    study.set_user_attr("su", {"k": [1]})
    storage.set_study_system_attr(study._study_id, "ss", {"k": [2]})
    v = sx.sym_real("done_v") if symbolic_values else 1.5
    study.add_trial(create_trial(value=v, params={"x": 0.5}, distributions={"x": optuna.distributions.FloatDistribution(0, 1)},
                                 user_attrs={"u": {"d": 1}}, system_attrs={"s": [1]},
                                 intermediate_values={0: (sx.sym_real("done_iv") if symbolic_values else 0.5)}))
    trial = study.ask()
    trial.suggest_float("x", 0, 1)
    trial.set_user_attr("u", {"k": [1, 2]})
    trial.report(sx.sym_real("t_iv") if symbolic_values else 0.75, 0)
    other = study.ask()
    study.enqueue_trial({"x": 0.125}, user_attrs={"queued": [1]})      # stays WAITING
    return storage, study, trial, other


def get_objects(g, storage, study, trial, other):
    sid = study._study_id
    if g == "study.trials":
        return study.trials
    if g == "study.get_trials(deepcopy=False)":
        return study.get_trials(deepcopy=False)
    if g == "study.get_trials(deepcopy=True)":
        return study.get_trials(deepcopy=True)
    if g == "storage.get_trial":
        return [storage.get_trial(trial._trial_id), storage.get_trial(other._trial_id)]
    if g == "storage.get_all_trials(deepcopy=False)":
        return storage.get_all_trials(sid, deepcopy=False)
    if g == "storage.get_all_trials(states)":
        return storage.get_all_trials(sid, deepcopy=False, states=(TrialState.RUNNING,))
    if g == "study.get_trials(states=(WAITING,))":
        return study.get_trials(deepcopy=True, states=(TrialState.WAITING,))
    if g == "storage.get_all_trials(states=(WAITING,), deepcopy=False)":
        return storage.get_all_trials(sid, deepcopy=False, states=(TrialState.WAITING,))
    if g == "study.get_trials(states=[WAITING, RUNNING])":
        return study.get_trials(deepcopy=True, states=[TrialState.WAITING, TrialState.RUNNING])
    if g == "storage.get_all_trials(deepcopy=True, states=(WAITING,))":
        return storage.get_all_trials(sid, deepcopy=True, states=(TrialState.WAITING,))
    if g == "storage.get_all_studies":
        return storage.get_all_studies()
    if g == "get_all_study_summaries":
        return optuna.get_all_study_summaries(storage)
    if g == "study.best_trial(constrained fallback)":
        return [study.best_trial]
    if g == "study.best_trial":
        return [study.best_trial]
    if g == "study.best_trials":
        return study.best_trials
    if g == "study.user_attrs":
        return [study.user_attrs]
    if g == "study.system_attrs":
        import warnings
        with warnings.catch_warnings():
            warnings.simplefilter("ignore")
            return [study.system_attrs]
    if g == "trial.params":
        return [trial.params]
    if g == "trial.distributions":
        return [trial.distributions]
    if g == "trial.user_attrs":
        return [trial.user_attrs]
    if g == "trial.system_attrs":
        import warnings
        with warnings.catch_warnings():
            warnings.simplefilter("ignore")
            return [trial.system_attrs]
    if g == "frozen-from-tell":
        return [study.tell(other, sx.sym_real("other_v"))]
    if g == "frozen-from-tell(skip_if_finished) on a finished trial":
        return [study.tell(0, 7.0, skip_if_finished=True)]
    raise KeyError(g)


def make_snapshot_body(backends, n_setters, symbolic_values=True):
    def body():
        kind = sx.choose(backends, "backend")
        sv = symbolic_values and kind != "journal"
        storage, study, trial, other = seed(kind, sv)
        g = sx.choose(GETTERS, "getter")
        objs = get_objects(g, storage, study, trial, other)
        before = [snap(o) for o in objs]
        names = []
        for i in range(n_setters):
            s = sx.choose(SETTERS, f"setter{i}")
            names.append(s)
            if g == "frozen-from-tell" and s.startswith("other."):
                sx.cur().abort()
            try:
                run_setter(s, study, trial, other, i)
            except (optuna.exceptions.UpdateFinishedTrialError, ValueError, RuntimeError):
                # a setter after tell() on the same trial is rejected: fine, nothing may have changed
                pass
        sx.note("scenario", dict(backend=kind, getter=g, setters=names))
        sx.reach("compared")
        conds = []
        for k, (o, b) in enumerate(zip(objs, before)):
            after = snap(o)
            ok = same(after, b, conds)
            assert ok, f"object #{k} returned by {g} on {kind} changed after {names}"
        return sx.all_of(conds) if conds else True
    return body


def make_deepcopy_body(backends):
    def body():
        kind = sx.choose(backends, "backend")
        storage, study, trial, other = seed(kind, False)
        g = sx.choose(["study.best_trial(constrained fallback)", "storage.get_all_studies", "get_all_study_summaries",
                       "frozen-from-tell(skip_if_finished) on a finished trial",
                       "study.trials", "study.get_trials(deepcopy=True)", "study.best_trial", "study.user_attrs", "trial.params",
                       "trial.user_attrs", "trial.distributions", "storage.get_all_trials(deepcopy=True)", "study.best_trials",
                       "study.get_trials(states=(WAITING,))", "study.get_trials(states=[WAITING, RUNNING])",
                       "storage.get_all_trials(deepcopy=True, states=(WAITING,))"], "getter")
        if g == "study.best_trial(constrained fallback)":
            # the best-valued trial is infeasible: best_trial falls back to the best feasible trial
            from optuna.samplers._base import _CONSTRAINTS_KEY
            dist = {"x": optuna.distributions.FloatDistribution(0, 1)}
            study.add_trial(create_trial(value=-10.0, params={"x": 0.5}, distributions=dist, system_attrs={_CONSTRAINTS_KEY: [1.0]}, user_attrs={"u": {"d": 1}}))
            study.add_trial(create_trial(value=-5.0, params={"x": 0.5}, distributions=dist, system_attrs={_CONSTRAINTS_KEY: [-1.0]}, user_attrs={"u": {"d": 1}}))

        def read():
            if g == "storage.get_all_trials(deepcopy=True)":
                return storage.get_all_trials(study._study_id, deepcopy=True)
            return get_objects(g, storage, study, trial, other)
        objs = read()
        ref = [snap(o) for o in read()]
        for o in objs:
            if isinstance(o, FrozenTrial):
                o.params["x"] = -1.0
                o.params["zz"] = 1
                o.user_attrs["u"] = "mutated"
                if isinstance(o.user_attrs.get("u"), dict):
                    o.user_attrs["u"]["d"] = "mutated"
                o.system_attrs["mut"] = 1
                for v in o.system_attrs.values():
                    if isinstance(v, dict):
                        v["x"] = 99.0
                o.intermediate_values[0] = -5.0
                o.distributions["x"] = optuna.distributions.FloatDistribution(5, 6)
                o.state = TrialState.FAIL
                o.values = None
                o.number = 99
            elif isinstance(o, (FrozenStudy, StudySummary)):
                for d in (o.user_attrs, o.system_attrs):
                    for v in d.values():
                        if isinstance(v, dict):
                            v["mut"] = 1
                    d["new"] = "mutated"
                    for k in list(d):
                        if not isinstance(d[k], dict):
                            d[k] = "mutated"
            elif isinstance(o, dict):
                for k in list(o):
                    if isinstance(o[k], dict):
                        o[k]["mut"] = 1
                    elif isinstance(o[k], list):
                        o[k].append("mut")
                    o[k] = "mutated" if not isinstance(o[k], (dict, list)) else o[k]
                o["new"] = 1
        sx.note("scenario", dict(backend=kind, getter=g))
        sx.reach("compared")
        again = [snap(o) for o in read()]
        assert again == ref, f"mutating the deep-copied result of {g} on {kind} changed what the study returns"
        return True
    return body


def setup(concrete):
    if not concrete:
        from stubs.shims import shim_frozen_trial, shim_tell
        shim_frozen_trial()
        shim_tell()


CODE = [Trial.__init__, Trial._suggest, Trial.report, Trial.set_user_attr, Trial.set_system_attr, Study.get_trials, Study._get_trials,
        Study.tell, Study.enqueue_trial, Study.add_trial, Study.set_user_attr, InMemoryStorage.get_trial, InMemoryStorage.get_all_trials,
        InMemoryStorage.set_trial_param, InMemoryStorage.set_trial_user_attr, InMemoryStorage.set_trial_system_attr,
        InMemoryStorage.set_trial_intermediate_value, InMemoryStorage.set_trial_state_values, JournalStorage.get_trial,
        JournalStorage.get_all_trials, _CachedStorage.get_trial, _CachedStorage.get_all_trials]


def classify(c):
    sc = c.get("notes", {}).get("scenario", {})
    if not sc:
        return "no-scenario|" + c["message"][:120]
    if "setters" in sc:
        return f"{sc.get('backend')}|{sc.get('getter')}|{'+'.join(sc.get('setters', []))}"
    return f"deepcopy|{sc.get('backend')}|{sc.get('getter')}"


def obligations(tier):
    obs = [
        Obligation("snapshot-1setter", make_snapshot_body(BACKENDS, 1), setup, CODE,
                   bounds=dict(backends=BACKENDS, getters=len(GETTERS), setters=len(SETTERS), setters_per_history=1),
                   shard_depth=2, budget_s=400, classify=classify, require_reach=["compared"],
                   describe="every (backend, getter, setter) triple; earlier objects must equal their snapshots"),
        Obligation("deepcopy-mutation", make_deepcopy_body(BACKENDS), setup, CODE, bounds=dict(backends=BACKENDS, getters=12),
                   budget_s=300, classify=classify, require_reach=["compared"],
                   describe="mutating every field of deep-copied results never affects later reads"),
    ]
    if tier == "thorough":
        obs.append(Obligation("snapshot-2setters", make_snapshot_body(BACKENDS, 2), setup, CODE,
                              bounds=dict(backends=BACKENDS, getters=len(GETTERS), setters=len(SETTERS), setters_per_history=2),
                              shard_depth=3, budget_s=1800, classify=classify, require_reach=["compared"],
                              describe="every (backend, getter, setter, setter) history"))
        obs.append(Obligation("snapshot-3setters", make_snapshot_body(BACKENDS, 3), setup, CODE,
                              bounds=dict(backends=BACKENDS, getters=len(GETTERS), setters=len(SETTERS), setters_per_history=3),
                              shard_depth=4, budget_s=3000, classify=classify, require_reach=["compared"],
                              describe="every (backend, getter, setter, setter, setter) history"))
    return obs
