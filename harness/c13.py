"""C13 — maximising f behaves exactly like minimising -f (DESIGN.md §3 C13). Relational harness: the same symbolic history is
presented twice, (MAXIMIZE, H) and (MINIMIZE, -H) with thresholds mirrored, to two instances of the real code."""
from __future__ import annotations

import math

import optuna
from optuna.pruners import (PercentilePruner, MedianPruner, SuccessiveHalvingPruner, HyperbandPruner, PatientPruner, ThresholdPruner)
from optuna.samplers._tpe import sampler as tpe_sampler
from optuna.storages import InMemoryStorage
from optuna.study import _multi_objective as mo
from optuna.trial import TrialState, create_trial

import symex as sx
from symex import Obligation
from harness import c16

META = {
    "level": "other",
    "explanation": (
        "Relational bounded symbolic execution: one symbolic history H (z3-real values, pairwise distinct as the property states; "
        "NaN forks where the code handles NaN) is fed to two instances of the real code, as (MAXIMIZE, H) and as (MINIMIZE, -H) "
        "with thresholds mirrored; z3 must prove the two decisions equal on every path pair. Covered: Percentile/Median/"
        "SuccessiveHalving/Hyperband/Patient/Threshold pruners, Study.best_trial (in-memory cache), Pareto front with any subset of "
        "objectives flipped, TPE _split_trials (complete/pruned/running scoring), NSGA-II elite population selection."
    ),
    "assumptions": ["exact reals: negation and comparison are exact on doubles; percentile interpolation is claimed over the reals",
                    "objective and intermediate values pairwise distinct (stated in the property)"],
    "outside": ["the numeric value of SciPy's Wilcoxon p-value (modelled as an uninterpreted function with the test's exact symmetry)", "GP / CMA-ES samplers", "equality of whole seeded parameter sequences (depends on the direction-"
                "agnostic numeric remainder of each sampler)"],
}


def neg(v):
    if isinstance(v, float) and math.isnan(v):
        return v
    return -v


def distinct(vals):
    vs = [v for v in vals if not (isinstance(v, float) and math.isnan(v))]
    for i in range(len(vs)):
        for j in range(i):
            sx.assume(vs[i] != vs[j])


def setup(concrete):
    c16.setup(concrete)
    if not concrete:
        from stubs.npshim import npshim
        mo.np = npshim
        tpe_sampler.math = sx.mathshim
        from optuna.samplers.nsgaii import _elite_population_selection_strategy as eps
        eps.np = npshim


def mk_studies():
    a = optuna.create_study(direction="maximize", storage=InMemoryStorage(), study_name="s")
    b = optuna.create_study(direction="minimize", storage=InMemoryStorage(), study_name="s")
    return a, b


def add_both(a, b, state, iv, value=None):
    a.add_trial(create_trial(state=state, value=value, intermediate_values=dict(iv)))
    b.add_trial(create_trial(state=state, value=None if value is None else neg(value), intermediate_values={k: neg(v) for k, v in iv.items()}))


def make_percentile_body(n_other, other_steps, cur_steps, symbolic_q):
    def body():
        kind = sx.choose(["percentile", "median"], "pruner")
        n_startup = sx.sym_int("n_startup", 0, 3)
        n_warmup = sx.sym_int("n_warmup", 0, 4)
        interval = sx.choose([1, 2], "interval")
        n_min = sx.sym_int("n_min_trials", 1, 3)
        if kind == "percentile":
            q = sx.sym_real("q", 0, 100) if symbolic_q else sx.choose([10.0, 25.0, 50.0, 75.0], "q")
            mk = lambda: PercentilePruner(q, n_startup_trials=n_startup, n_warmup_steps=n_warmup, interval_steps=interval, n_min_trials=n_min)  # noqa
        else:
            mk = lambda: MedianPruner(n_startup_trials=n_startup, n_warmup_steps=n_warmup, interval_steps=interval, n_min_trials=n_min)  # noqa
        a, b = mk_studies()
        allv = []
        for i in range(n_other):
            st = TrialState[sx.choose(["COMPLETE", "PRUNED"], f"o{i}.state")]
            mask = sx.choose(list(range(1, 1 << len(other_steps))), f"o{i}.steps")
            iv = {s: sx.sym_float(f"o{i}_s{s}", ("finite", "nan")) for k, s in enumerate(other_steps) if mask >> k & 1}
            allv += list(iv.values())
            add_both(a, b, st, iv, value=0.0 if st == TrialState.COMPLETE else None)
        mask = sx.choose(list(range(1, 1 << len(cur_steps))), "cur.steps")
        civ = {s: sx.sym_float(f"cur_s{s}", ("finite", "nan")) for k, s in enumerate(cur_steps) if mask >> k & 1}
        allv += list(civ.values())
        distinct(allv)
        ca = create_trial(state=TrialState.RUNNING, intermediate_values=civ)
        cb = create_trial(state=TrialState.RUNNING, intermediate_values={k: neg(v) for k, v in civ.items()})
        ca.number = cb.number = n_other
        sx.note("scenario", dict(pruner=kind, interval=interval, cur_steps=sorted(civ)))
        ra = c16.P(mk().prune(a, ca))
        rb = c16.P(mk().prune(b, cb))
        sx.reach("compared")
        if ra is not False:
            sx.reach("prune-possible")
        return sx.iff(ra, rb)
    return body


def threshold_body():
    has_lower = bool(sx.choose(2, "has_lower"))
    has_upper = bool(sx.choose(2, "has_upper"))
    if not (has_lower or has_upper):
        sx.cur().abort()
    lower = sx.sym_real("lower") if has_lower else None
    upper = sx.sym_real("upper") if has_upper else None
    if has_lower and has_upper:
        sx.assume(lower <= upper)
    n_warmup = sx.sym_int("n_warmup", 0, 4)
    interval = sx.choose([1, 2, 3], "interval")
    pa = ThresholdPruner(lower=lower, upper=upper, n_warmup_steps=n_warmup, interval_steps=interval)
    pb = ThresholdPruner(lower=None if upper is None else -upper, upper=None if lower is None else -lower, n_warmup_steps=n_warmup, interval_steps=interval)
    a, b = mk_studies()
    steps = [0, 1, 2, 4]
    mask = sx.choose(list(range(1, 1 << len(steps))), "cur.steps")
    last = max(s for k, s in enumerate(steps) if mask >> k & 1)
    civ = {s: sx.sym_float(f"cur_s{s}", ("finite", "nan", "inf", "-inf") if s == last else ("finite",)) for k, s in enumerate(steps) if mask >> k & 1}
    ca = create_trial(state=TrialState.RUNNING, intermediate_values=civ)
    cb = create_trial(state=TrialState.RUNNING, intermediate_values={k: neg(v) for k, v in civ.items()})
    sx.reach("compared")
    return sx.iff(c16.P(pa.prune(a, ca)), c16.P(pb.prune(b, cb)))


def patient_body():
    patience = int(sx.sym_int("patience", 0, 2))
    min_delta = sx.sym_real("min_delta", 0, None)
    wrapped = sx.choose(["none", "median"], "wrapped")
    mk = lambda: PatientPruner(None if wrapped == "none" else MedianPruner(n_startup_trials=0, n_warmup_steps=0), patience=patience, min_delta=min_delta)  # noqa
    a, b = mk_studies()
    allv = []
    if wrapped == "median":
        iv = {0: sx.sym_real("o_s0"), 2: sx.sym_real("o_s2")}
        allv += list(iv.values())
        add_both(a, b, TrialState.COMPLETE, iv, value=0.0)
    steps = [0, 1, 2, 3]
    mask = sx.choose(list(range(1, 1 << len(steps))), "cur.steps")
    # the current trial's reports may diverge: +-inf at any step (pairwise distinct, so at most one of each)
    civ = {s: sx.sym_float(f"cur_s{s}", ("finite", "inf", "-inf")) for k, s in enumerate(steps) if mask >> k & 1}
    allv += list(civ.values())
    distinct(allv)
    ca = create_trial(state=TrialState.RUNNING, intermediate_values=civ)
    cb = create_trial(state=TrialState.RUNNING, intermediate_values={k: neg(v) for k, v in civ.items()})
    ca.number = cb.number = 1
    sx.reach("compared")
    return sx.iff(c16.P(mk().prune(a, ca)), c16.P(mk().prune(b, cb)))


def make_sh_body(n_trials, n_steps, hyperband):
    def body():
        rf = sx.choose([2, 3], "reduction_factor")
        if hyperband:
            mk = lambda: HyperbandPruner(min_resource=1, max_resource=sx.cur().notes["max_res"], reduction_factor=rf)  # noqa
            sx.note("max_res", sx.choose([4, 9], "max_resource"))
        else:
            min_res = sx.choose([1, 2, "auto"], "min_resource")
            mesr = sx.choose([0, 1], "mesr")
            mk = lambda: SuccessiveHalvingPruner(min_resource=min_res, reduction_factor=rf, min_early_stopping_rate=mesr)  # noqa
        vals = [[sx.sym_float(f"t{i}_s{s}", ("finite", "nan")) for s in range(n_steps)] for i in range(n_trials)]
        distinct([v for row in vals for v in row])
        fates = []
        for sign, direction in ((1, "maximize"), (-1, "minimize")):
            study = optuna.create_study(direction=direction, storage=InMemoryStorage(), pruner=mk(), study_name="s",
                                        sampler=optuna.samplers.RandomSampler(seed=0))
            f = []
            for i in range(n_trials):
                row = vals[i] if sign == 1 else [neg(v) for v in vals[i]]
                pruned_at, _ = c16.run_trial_through_pruner(study, row, f"t{i}")
                f.append(pruned_at)
            fates.append(f)
        sx.note("fates", fates)
        sx.reach("compared")
        if any(x is not None for x in fates[0]):
            sx.reach("some-pruned")
        assert fates[0] == fates[1], f"pruning decisions differ: maximize f {fates[0]} vs minimize -f {fates[1]}"
        return True
    return body


def best_trial_body():
    n = sx.choose([1, 2, 3], "n")
    a, b = mk_studies()
    vals = []
    for i in range(n):
        st = TrialState[sx.choose(["COMPLETE", "PRUNED", "FAIL"], f"t{i}.state")]
        v = sx.sym_float(f"v{i}", ("finite", "inf", "-inf")) if st == TrialState.COMPLETE else None
        how = sx.choose(["template", "tell"], f"t{i}.how") if st == TrialState.COMPLETE else "template"
        if v is not None:
            vals.append(v)
        for study, sign in ((a, 1), (b, -1)):
            vv = None if v is None else (v if sign == 1 else neg(v))
            if how == "template":
                study.add_trial(create_trial(state=st, value=vv))
            else:
                t = study.ask()
                study.tell(t, vv)
    fin = [v for v in vals if sx.is_symnum(v)]
    distinct(fin)
    infs = [v for v in vals if not sx.is_symnum(v)]
    if len(infs) != len(set(infs)):
        sx.cur().abort()     # ties: which of several equally good trials is returned is unspecified
    ra = rb = None
    try:
        ra = a.best_trial.number
    except ValueError:
        pass
    try:
        rb = b.best_trial.number
    except ValueError:
        pass
    sx.reach("compared")
    assert ra == rb, f"best trial differs: maximize f -> {ra}, minimize -f -> {rb}"
    return True


def make_pareto_body(n, d):
    def body():
        flip = sx.choose(list(range(1, 1 << d)), "flip_mask")
        dirs_a = ["minimize"] * d
        dirs_b = ["maximize" if flip >> j & 1 else "minimize" for j in range(d)]
        a = optuna.create_study(directions=dirs_a, storage=InMemoryStorage())
        b = optuna.create_study(directions=dirs_b, storage=InMemoryStorage())
        for i in range(n):
            v = [sx.sym_float(f"v{i}_{j}", ("finite", "inf") if (i == 0 and j == 0) else ("finite",)) for j in range(d)]
            a.add_trial(create_trial(values=v))
            b.add_trial(create_trial(values=[neg(x) if flip >> j & 1 else x for j, x in enumerate(v)]))
        fa = sorted(t.number for t in a.best_trials)
        fb = sorted(t.number for t in b.best_trials)
        sx.reach("compared")
        assert fa == fb, f"Pareto front differs after flipping objectives {flip:b}: {fa} vs {fb}"
        return True
    return body


def tpe_split_body():
    n = 4
    a, b = mk_studies()
    vals = []
    for i in range(n):
        st = TrialState[sx.choose(["COMPLETE", "PRUNED", "RUNNING"], f"t{i}.state")]
        v = sx.sym_real(f"v{i}") if st == TrialState.COMPLETE else None
        iv = {}
        if st == TrialState.PRUNED:
            nst = sx.choose([0, 1, 2], f"t{i}.n_steps")
            iv = {s: sx.sym_float(f"t{i}_s{s}", ("finite", "nan") if s == nst - 1 else ("finite",)) for s in range(nst)}
        vals += ([v] if v is not None else []) + list(iv.values())
        add_both(a, b, st, iv, value=v)
    distinct(vals)
    n_below = sx.choose([0, 1, 2, 3], "n_below")
    res = []
    for study in (a, b):
        trials = study.get_trials(deepcopy=False)
        below, above = tpe_sampler._split_trials(study, trials, n_below, False)
        res.append(([t.number for t in below], [t.number for t in above]))
    sx.reach("compared")
    assert res[0] == res[1], f"TPE below/above split differs: {res[0]} vs {res[1]}"
    return True


def make_nsga2_elite_body(n, d):
    from optuna.samplers.nsgaii._elite_population_selection_strategy import NSGAIIElitePopulationSelectionStrategy

    def body():
        flip = sx.choose(list(range(1, 1 << d)), "flip_mask")
        psize = sx.choose([2, 3] if n > 3 else [2], "population_size")
        dirs_a = ["minimize"] * d
        dirs_b = ["maximize" if flip >> j & 1 else "minimize" for j in range(d)]
        a = optuna.create_study(directions=dirs_a, storage=InMemoryStorage())
        b = optuna.create_study(directions=dirs_b, storage=InMemoryStorage())
        allv = []
        for i in range(n):
            v = [sx.sym_real(f"v{i}_{j}") for j in range(d)]
            allv += v
            a.add_trial(create_trial(values=v))
            b.add_trial(create_trial(values=[neg(x) if flip >> j & 1 else x for j, x in enumerate(v)]))
        distinct(allv)
        ea = [t.number for t in NSGAIIElitePopulationSelectionStrategy(population_size=psize)(a, a.get_trials(deepcopy=False))]
        eb = [t.number for t in NSGAIIElitePopulationSelectionStrategy(population_size=psize)(b, b.get_trials(deepcopy=False))]
        sx.note("scenario", dict(flip=flip, population_size=psize))
        sx.reach("compared")
        assert ea == eb, f"NSGA-II elite population (ordered) differs after flipping objectives {flip:0{d}b}: {ea} vs {eb}"
        return True
    return body


class WilcoxonStub:
    """scipy.stats stand-in: wilcoxon(d, alternative) returns a p-value that is an uninterpreted function of the test's canonical input.
    The signed-rank test is exactly symmetric: p_less(d) == p_greater(-d), so both orientations share one canonical key (d for 'greater',
    -d for 'less'); two calls whose canonical inputs are provably equal get the same symbolic p in [0, 1]."""

    def __init__(self):
        self.cache = []

    def wilcoxon(self, diffs, alternative="two-sided", zero_method="wilcox"):
        import types
        ds = [sx.proxies.to_real(x) for x in list(diffs)]
        canon = [d if alternative == "greater" else -d for d in ds]
        ex = sx.cur()
        for (c2, pv) in self.cache:
            if len(c2) == len(canon):
                ok, _ = ex._check(sx.proxies.z3.Not(sx.proxies.z3.And([a == b for a, b in zip(canon, c2)])))
                if not ok:
                    return types.SimpleNamespace(pvalue=pv)
        pv = sx.sym_real(f"pvalue{len(self.cache)}", 0, 1)
        self.cache.append((canon, pv))
        return types.SimpleNamespace(pvalue=pv)


def wilcoxon_body():
    from optuna.pruners import _wilcoxon as pw, WilcoxonPruner
    from stubs.npshim import npshim
    if not sx.cur().concrete:
        pw.np = npshim
        pw.ss = WilcoxonStub()                  # concrete replays run the real NumPy and the real SciPy test
    n_startup = sx.choose([0, 2, 3], "n_startup_steps")
    pth = sx.sym_real("p_threshold", 0, 1)
    a, b = mk_studies()
    nb = sx.choose([2, 3], "best_steps")
    best_iv = {s_: sx.sym_real(f"best_s{s_}") for s_ in range(nb)}
    add_both(a, b, TrialState.COMPLETE, best_iv, value=sx.sym_real("best_value"))
    steps = [0, 1, 2]
    mask = sx.choose(list(range(1, 1 << len(steps))), "cur.steps")
    civ = {s_: sx.sym_real(f"cur_s{s_}") for k, s_ in enumerate(steps) if mask >> k & 1}
    distinct(list(best_iv.values()) + list(civ.values()))
    ca = create_trial(state=TrialState.RUNNING, intermediate_values=civ)
    cb = create_trial(state=TrialState.RUNNING, intermediate_values={k: neg(v) for k, v in civ.items()})
    ca.number = cb.number = 1
    mk = lambda: WilcoxonPruner(p_threshold=pth, n_startup_steps=n_startup)  # noqa: E731
    import warnings
    warnings.simplefilter("ignore")
    ra = c16.P(mk().prune(a, ca))
    rb = c16.P(mk().prune(b, cb))
    sx.reach("compared")
    if ra is not False:
        sx.reach("prune-possible")
    return sx.iff(ra, rb)


def make_wilcoxon_replay(body, setup_):
    def replay(payload):
        return _wilcoxon_replay(payload, body, setup_)
    return replay


def wilcoxon_replay(payload):
    return _wilcoxon_replay(payload, wilcoxon_body, setup)


def _wilcoxon_replay(payload, body, setup_):
    """replay on the real code with the real SciPy test: the intermediate values are the solver's; the p-value is whatever SciPy
    computes for them, so the free parameter p_threshold is re-chosen (model value first, then a grid) until the two orientations
    really disagree"""
    import copy
    from symex import core
    setup_(True)
    last = "no p_threshold reproduces the disagreement with SciPy's p-value"
    for pth in [None, 1.0, 0.9, 0.76, 0.7, 0.51, 0.3, 0.26, 0.2, 0.13, 0.1, 0.05]:
        pl = copy.deepcopy(payload)
        if pth is not None:
            pl["values"]["p_threshold"] = pth
        ok, desc = core.ConcreteRun(pl).run(body)
        if ok:
            return True, f"{desc} (p_threshold={pl['values'].get('p_threshold')}, SciPy p-value)"
        last = desc
    return False, last


def tie_rounding_witness():
    """concrete witness of the recorded floating-point finding: the value sits exactly on the interpolated percentile, and
    np.nanpercentile(v, 100-q) and -np.nanpercentile(-v, q) differ by one ulp, so the strict comparisons disagree"""
    import time
    t0 = time.time()
    others, cur, q = [0.125, -1.75], -0.0625, 10.0
    a, b = mk_studies()
    for v in others:
        add_both(a, b, TrialState.COMPLETE, {0: v}, value=0.0)
    ca = create_trial(state=TrialState.RUNNING, intermediate_values={0: cur})
    cb = create_trial(state=TrialState.RUNNING, intermediate_values={0: -cur})
    ca.number = cb.number = 2
    mk = lambda: PercentilePruner(q, n_startup_trials=0, n_warmup_steps=0)  # noqa
    ra, rb = mk().prune(a, ca), mk().prune(b, cb)
    res = {"result": "differs" if ra != rb else "same", "queries": 0, "wall_s": time.time() - t0,
           "samples": [dict(others=others, current=cur, percentile=q, maximize_f=bool(ra), minimize_neg_f=bool(rb))]}
    if ra != rb:
        res["cex"] = [{"key": "percentile-tie-rounding:q=10:others=[0.125,-1.75]:cur=-0.0625", "pre_replayed": True, "values": {}, "choices": [],
                       "notes": res["samples"][0], "kind": "concrete-witness",
                       "message": f"PercentilePruner(10) prunes={bool(ra)} on (maximize, f) but prunes={bool(rb)} on (minimize, -f): value equals the interpolated percentile, 1-ulp rounding asymmetry"}]
    return res


CODE = [PercentilePruner.prune, ThresholdPruner.prune, PatientPruner.prune, SuccessiveHalvingPruner.prune, HyperbandPruner.prune,
        InMemoryStorage._update_cache, InMemoryStorage.get_best_trial, optuna.study.Study.best_trial, optuna.study.Study.best_trials,
        mo._get_pareto_front_trials_by_trials, mo._is_pareto_front, mo._is_pareto_front_2d, mo._is_pareto_front_nd,
        mo._is_pareto_front_for_unique_sorted, mo._normalize_value, mo._dominates,
        tpe_sampler._split_trials, tpe_sampler._split_complete_trials_single_objective, tpe_sampler._split_pruned_trials,
        tpe_sampler._get_pruned_trial_score]


def classify(c):
    import re
    m = re.sub(r"at [\w\.]+:\d+: ", "", c["message"])
    m = re.sub(r"\[[^\]]*\]|\d+", "_", m)
    return m[:100]


def obligations(tier):
    q = tier == "quick"
    obs = [
        Obligation("percentile-median", make_percentile_body(2, [0, 1], [0, 1] if q else [0, 1, 2], False), setup, CODE,
                   bounds=dict(others=2, steps=[0, 1], q=[10, 25, 50, 75]), shard_depth=5, budget_s=900, classify=classify,
                   require_reach=["compared", "prune-possible"], describe="Percentile/Median decisions equal on (max, H) and (min, -H)"),
        Obligation("percentile-symbolic-q", make_percentile_body(2, [0], [0, 1], True), setup, CODE, bounds=dict(others=2, q="z3 real"),
                   shard_depth=4, budget_s=600, classify=classify, require_reach=["compared", "prune-possible"],
                   describe="same with a z3-real percentile"),
        Obligation("threshold", threshold_body, setup, CODE, shard_depth=3, budget_s=300, classify=classify, require_reach=["compared"],
                   describe="ThresholdPruner with lower/upper mirrored"),
        Obligation("patient", patient_body, setup, CODE, shard_depth=3, budget_s=300, classify=classify, require_reach=["compared"],
                   describe="PatientPruner alone and wrapping MedianPruner"),
        Obligation("successive-halving", make_sh_body(3, 2, False), setup, CODE, bounds=dict(trials=3, steps=2), shard_depth=5, budget_s=900,
                   classify=classify, require_reach=["compared", "some-pruned"], describe="whole SH flows on mirrored studies give the same fates"),
        Obligation("hyperband", make_sh_body(3, 2, True), setup, CODE, bounds=dict(trials=3, steps=2), shard_depth=5, budget_s=900,
                   classify=classify, require_reach=["compared"], describe="Hyperband flows on mirrored studies"),
        Obligation("best-trial", best_trial_body, setup, CODE, bounds=dict(trials="1..3", values="finite/+-inf"), shard_depth=4, budget_s=600,
                   classify=classify, require_reach=["compared"], describe="Study.best_trial number equal (templates and tell in any mix)"),
        Obligation("pareto-2d", make_pareto_body(3, 2), setup, CODE, bounds=dict(trials=3, objectives=2), shard_depth=4, budget_s=600,
                   classify=classify, require_reach=["compared"], describe="best_trials with any non-empty subset of 2 objectives flipped"),
        Obligation("tpe-split", tpe_split_body, setup, CODE, bounds=dict(trials=4, n_below="0..3"), shard_depth=5, budget_s=900,
                   classify=classify, require_reach=["compared"], describe="TPE _split_trials below/above numbers equal"),
    ]
    obs.append(Obligation("wilcoxon", wilcoxon_body, setup, CODE, bounds=dict(best_steps=[2, 3], cur_steps="subsets of {0,1,2}", p_value="uninterpreted symmetric function"),
                          shard_depth=3, budget_s=600, classify=classify, require_reach=["compared", "prune-possible"],
                          describe="WilcoxonPruner decisions equal on mirrored studies (SciPy's test replaced by an uninterpreted symmetric p-value)",
                          replay_custom=wilcoxon_replay))
    obs.append(Obligation("nsga2-elite-2d", make_nsga2_elite_body(3, 2), setup, CODE, bounds=dict(individuals=3, objectives=2, population_size=2),
                          shard_depth=4, budget_s=900, timeout_ms=120000, classify=classify, require_reach=["compared"],
                          describe="NSGA-II elite population (rank + crowding distance), ordered, equal under any flipped subset"))
    obs.append(Obligation("percentile-tie-rounding-witness", None, None, [], custom=tie_rounding_witness,
                          describe="concrete witness for the recorded floating-point finding (outside the exact-real claim)"))
    if not q:
        obs.append(Obligation("pareto-3d", make_pareto_body(3, 3), setup, CODE, bounds=dict(trials=3, objectives=3), shard_depth=5, budget_s=1800,
                              classify=classify, require_reach=["compared"], describe="3 objectives, any subset flipped"))
        obs.append(Obligation("pareto-2d-n4", make_pareto_body(4, 2), setup, CODE, bounds=dict(trials=4, objectives=2), shard_depth=5, budget_s=1800,
                              classify=classify, require_reach=["compared"], describe="4 trials, 2 objectives"))
        obs.append(Obligation("successive-halving-3steps", make_sh_body(3, 3, False), setup, CODE, bounds=dict(trials=3, steps=3), shard_depth=6,
                              budget_s=2400, classify=classify, require_reach=["compared", "some-pruned"], describe="SH flows, 3 steps"))
    return obs
