"""Executable transcription of the BaseStorage docstrings (DESIGN.md §3 C01): the contract every backend is compared against.

numbers 0,1,2.. per study in creation order; ids unique and never reused; writes overwrite by key; a template is stored field for
field; RUNNING only from WAITING (False otherwise); finished trials reject every setter with UpdateFinishedTrialError; unknown ids raise
KeyError; duplicate study names raise DuplicatedStudyError; a deleted study and its trials are gone."""
from __future__ import annotations

import copy

from optuna.distributions import check_distribution_compatibility
from optuna.exceptions import DuplicatedStudyError, UpdateFinishedTrialError
from optuna.trial import TrialState


class SpecStorage:
    def __init__(self):
        self.studies = {}
        self.trials = {}
        self.next_sid = 0
        self.next_tid = 0

    # ---- studies
    def create_new_study(self, directions, study_name):
        if any(s["name"] == study_name for s in self.studies.values()):
            raise DuplicatedStudyError(study_name)
        sid = self.next_sid
        self.next_sid += 1
        self.studies[sid] = dict(name=study_name, directions=list(directions), user_attrs={}, system_attrs={}, trials=[], param_dist={})
        return sid

    def _study(self, sid):
        if sid not in self.studies:
            raise KeyError(sid)
        return self.studies[sid]

    def delete_study(self, sid):
        s = self._study(sid)
        for tid in s["trials"]:
            del self.trials[tid]
        del self.studies[sid]

    def set_study_user_attr(self, sid, key, value):
        self._study(sid)["user_attrs"][key] = value

    def set_study_system_attr(self, sid, key, value):
        self._study(sid)["system_attrs"][key] = value

    def get_study_id_from_name(self, name):
        for sid, s in self.studies.items():
            if s["name"] == name:
                return sid
        raise KeyError(name)

    def get_study_name_from_id(self, sid):
        return self._study(sid)["name"]

    def get_study_directions(self, sid):
        return self._study(sid)["directions"]

    # ---- trials
    def create_new_trial(self, sid, template=None):
        s = self._study(sid)
        tid = self.next_tid
        self.next_tid += 1
        if template is None:
            t = dict(state=TrialState.RUNNING, values=None, params={}, distributions={}, user_attrs={}, system_attrs={}, intermediate_values={})
        else:
            t = dict(state=template.state, values=None if template.values is None else list(template.values), params=dict(template.params),
                     distributions=dict(template.distributions), user_attrs=dict(template.user_attrs), system_attrs=dict(template.system_attrs),
                     intermediate_values=dict(template.intermediate_values))
            # a parameter recorded through a template counts as "previously recorded" for later compatibility checks (RDB and
            # journal check against every earlier trial of the study that has the parameter)
            for name, dist in template.distributions.items():
                s["param_dist"].setdefault(name, dist)
        t["number"] = len(s["trials"])
        t["study"] = sid
        self.trials[tid] = t
        s["trials"].append(tid)
        return tid

    def _trial(self, tid):
        if tid not in self.trials:
            raise KeyError(tid)
        return self.trials[tid]

    def _updatable(self, tid):
        t = self._trial(tid)
        if t["state"].is_finished():
            raise UpdateFinishedTrialError(tid)
        return t

    def set_trial_param(self, tid, name, internal, dist):
        t = self._updatable(tid)
        s = self.studies[t["study"]]
        if name in s["param_dist"]:
            check_distribution_compatibility(s["param_dist"][name], dist)      # ValueError when incompatible
        s["param_dist"][name] = dist
        t["params"][name] = dist.to_external_repr(internal)
        t["distributions"][name] = dist

    def set_trial_state_values(self, tid, state, values=None):
        t = self._updatable(tid)
        if state == TrialState.RUNNING and t["state"] != TrialState.WAITING:
            return False
        t["state"] = state
        if values is not None:
            t["values"] = list(values)
        return True

    def set_trial_intermediate_value(self, tid, step, value):
        self._updatable(tid)["intermediate_values"][step] = value

    def set_trial_user_attr(self, tid, key, value):
        self._updatable(tid)["user_attrs"][key] = value

    def set_trial_system_attr(self, tid, key, value):
        self._updatable(tid)["system_attrs"][key] = value

    def get_trial_id_from_study_id_trial_number(self, sid, number):
        s = self._study(sid)
        if not 0 <= number < len(s["trials"]):
            raise KeyError(number)
        return s["trials"][number]

    def view(self):
        """readable state: {sid: (name, directions, user_attrs, system_attrs, [trial dicts in number order])}"""
        return {sid: (s["name"], list(s["directions"]), copy.copy(s["user_attrs"]), copy.copy(s["system_attrs"]),
                      [(tid, self.trials[tid]) for tid in s["trials"]]) for sid, s in self.studies.items()}
