"""C15 — hypervolume, non-domination rank and subset selection are exact (DESIGN.md §3 C15)."""
from __future__ import annotations

import itertools
import math

import numpy as np
import z3

import optuna
from optuna._hypervolume import wfg, hssp
from optuna.study import _multi_objective as mo

import symex as sx
from symex import Obligation
from symex.proxies import SymReal, SymBool, to_real

META = {
    "level": "other",
    "explanation": (
        "Bounded symbolic execution of the real compute_hypervolume/_compute_2d/_compute_hv/_compute_exclusive_hv, "
        "_fast_non_domination_rank/_calculate_nondomination_rank (constrained variant included) and _solve_hssp* on NumPy object arrays "
        "whose coordinates, reference point and penalties are exact z3 reals; every comparison forks, so ties, duplicates and dominated "
        "points are separate solver-checked paths. Hypervolume oracle: inclusion-exclusion evaluated on the same path, equality of the "
        "two polynomials decided by normalisation after substituting the equalities the path forces (fallback: a nonlinear z3 query). "
        "Rank oracle: repeated peeling with the O(n^2) dominance definition (feasible first, then by penalty, then the no-penalty group). "
        "HSSP: result has the requested size and consists of distinct members (symbolic reals); the (1-1/e) bound is decided on integer "
        "lattices {0..L-1}^d by solver-enumerated coordinates (finite, complete within the bound)."
    ),
    "assumptions": ["exactness of the algorithm over the reals (floating-point rounding of the products is outside)",
                    "NumPy rebound to the object-array shim in optuna._hypervolume.wfg/hssp and optuna.study._multi_objective"],
    "outside": ["4-5 dimensions and larger n", "the (1-1/e) bound off the lattice sizes listed in the bounds", "floating-point rounding"],
}


def setup(concrete):
    if concrete:
        return
    from stubs.npshim import npshim_obj
    for m in (wfg, hssp, mo):
        m.np = npshim_obj
        m.float = sx.float_shim
    import builtins
    hssp.max = lambda *a: (a[0] if not (a[1] > a[0]) else a[1]) if len(a) == 2 else builtins.max(*a)  # noqa: E731


def arr(rows):
    a = np.empty((len(rows), len(rows[0])), dtype=object if any(sx.is_sym(v) for r in rows for v in r) else float)
    for i, r in enumerate(rows):
        for j, v in enumerate(r):
            a[i, j] = v
    return a


def vec(xs):
    a = np.empty(len(xs), dtype=object if any(sx.is_sym(v) for v in xs) else float)
    for i, v in enumerate(xs):
        a[i] = v
    return a


def oracle_hv(points, ref):
    """exact dominated volume by inclusion-exclusion, all max() resolved by forks on this path"""
    tot = 0
    n, d = len(points), len(ref)
    for k in range(1, n + 1):
        for S in itertools.combinations(range(n), k):
            vol = 1
            for j in range(d):
                m = points[S[0]][j]
                for i in S[1:]:
                    if points[i][j] > m:
                        m = points[i][j]
                vol = vol * (ref[j] - m)
            tot = tot + (vol if k % 2 == 1 else -vol)
    return tot


def poly_equal(a, b, variables):
    """decide a == b for two polynomial terms under the current path condition"""
    if not (sx.is_sym(a) or sx.is_sym(b)):
        return math.isclose(a, b, rel_tol=1e-9, abs_tol=1e-12)
    ex = sx.cur()
    diff = z3.simplify(to_real(a) - to_real(b), som=True)
    if z3.is_rational_value(diff) and diff.as_fraction() == 0:
        return True
    # merge variables that the path forces equal, then normalise again
    rep = {}
    vs = [v.e for v in variables if isinstance(v, SymReal)]
    for i, x in enumerate(vs):
        for y in vs[:i]:
            if y.get_id() in rep:
                continue
            ok, _ = ex._check(x != y)
            if not ok:
                rep[x.get_id()] = (x, y)
                break
    if rep:
        diff = z3.simplify(z3.substitute(to_real(a) - to_real(b), *rep.values()), som=True)
        if z3.is_rational_value(diff) and diff.as_fraction() == 0:
            return True
    return SymBool(diff == 0)


def make_hv_body(n, d, assume_pareto_opts=(False,)):
    def body():
        pts = [[sx.sym_real(f"p{i}_{j}") for j in range(d)] for i in range(n)]
        ref = [sx.sym_real(f"r{j}") for j in range(d)]
        for i in range(n):
            for j in range(d):
                sx.assume(pts[i][j] <= ref[j])
        ap = sx.choose(list(assume_pareto_opts), "assume_pareto") if len(assume_pareto_opts) > 1 else assume_pareto_opts[0]
        hv = wfg.compute_hypervolume(arr(pts), vec(ref), assume_pareto=ap)            # REAL code
        want = oracle_hv(pts, ref)
        sx.reach("computed")
        return poly_equal(hv, want, [v for r in pts for v in r] + ref)
    return body


def make_hv_lattice_body(n, d, L):
    """integer lattice {0..L}^d with reference point (L,..,L): points ON the reference boundary included. The true dominated volume is
    the number of unit cells below some point. Coordinates are enumerated through the explorer (finite, complete)."""
    def body():
        pts = []
        for i in range(n):
            p = [float(sx.choose(L + 1, f"p{i}_{j}")) for j in range(d)]
            if pts and tuple(p) < tuple(pts[-1]):
                sx.cur().abort()             # symmetry cut: lexicographic order; every input order is generated below
            pts.append(p)
        if n <= 3:
            perm = sx.choose(list(itertools.permutations(range(n))), "input_order")
            pts = [pts[i] for i in perm]
        ap = False
        nd = [q for q in pts if not any(all(a <= b for a, b in zip(o, q)) and o != q for o in pts)]
        if len(nd) == len(pts) and len({tuple(q) for q in pts}) == len(pts):
            ap = bool(sx.choose(2, "assume_pareto"))           # only legitimate when the input is a Pareto set
        ref = [float(L)] * d
        hv = wfg.compute_hypervolume(np.array(pts), np.array(ref), assume_pareto=ap)        # REAL code, real NumPy
        want = sum(1 for cell in itertools.product(range(L), repeat=d) if any(all(q[j] <= cell[j] for j in range(d)) for q in pts))
        sx.reach("computed")
        assert abs(hv - want) < 1e-9, f"hypervolume {hv} != true dominated volume {want}: points {pts} reference {ref} assume_pareto={ap}"
        return True
    return body


def hv_inf_body():
    """infinite reference coordinates / infinite points: the result must be inf when the dominated volume is"""
    d = sx.choose([2, 3], "d")
    n = 2
    kinds = [[sx.choose(["fin", "-inf"], f"k{i}_{j}") for j in range(d)] for i in range(n)]
    refk = [sx.choose(["fin", "inf"], f"rk{j}") for j in range(d)]
    vals = {"fin": 1.0, "-inf": -math.inf, "inf": math.inf}
    pts = np.array([[vals[k] if k != "fin" else float(i + j) for j, k in enumerate(row)] for i, row in enumerate(kinds)])
    ref = np.array([vals[k] if k != "fin" else 10.0 for k in refk])
    hv = wfg.compute_hypervolume(pts, ref)
    # the dominated volume is infinite iff some point has an infinitely long box edge in some coordinate and all its other edges are > 0
    expect_inf = any(any(math.isinf(ref[j] - p[j]) for j in range(d)) and all(ref[j] - p[j] > 0 for j in range(d)) for p in pts)
    sx.reach("computed")
    assert math.isinf(hv) == expect_inf or (math.isnan(hv) and False), f"hypervolume {hv} but infinite volume expected={expect_inf} for {pts.tolist()} ref {ref.tolist()}"
    return True


def dominates(a, b):
    le = all(bool(x <= y) for x, y in zip(a, b))
    lt = any(bool(x < y) for x, y in zip(a, b))
    return le and lt


def peel(idx, pts, start=0):
    left = set(idx)
    want = {}
    r = start
    while left:
        front = [i for i in left if not any(dominates(pts[j], pts[i]) for j in left if j != i)]
        for i in front:
            want[i] = r
        left -= set(front)
        r += 1
    return want, r


def make_rank_body(n, d, constrained):
    def body():
        pts = [[sx.sym_real(f"p{i}_{j}") for j in range(d)] for i in range(n)]
        lv = arr(pts)
        if not constrained:
            nb = sx.choose([None] + list(range(1, n + 1)), "n_below")
            ranks = [int(x) for x in mo._fast_non_domination_rank(lv, n_below=nb)]     # REAL code
            want, _ = peel(range(n), pts)
            sx.reach("ranked")
            if nb is None:
                assert ranks == [want[i] for i in range(n)], f"ranks {ranks} != peeling {[want[i] for i in range(n)]}"
                return True
            # documented contract of n_below: ranks are exact up to the rank of the n_below-th best solution, every solution that is
            # worse gets a rank greater than that
            rstar = sorted(want[i] for i in range(n))[nb - 1]
            for i in range(n):
                if want[i] <= rstar:
                    assert ranks[i] == want[i], f"n_below={nb}: rank of point {i} is {ranks[i]}, peeling gives {want[i]} (within the top-{nb} ranks); all: {ranks} vs {[want[j] for j in range(n)]}"
                else:
                    assert ranks[i] > rstar, f"n_below={nb}: point {i} (true rank {want[i]}) got rank {ranks[i]}, not worse than the top-{nb} rank {rstar}"
            sx.reach("ranked-n_below")
            return True
        pk = [sx.choose(["real", "nan"], f"pen{i}.kind") for i in range(n)]
        pen = [sx.sym_real(f"pen{i}") if k == "real" else float("nan") for i, k in enumerate(pk)]
        ranks = [int(x) for x in mo._fast_non_domination_rank(lv, penalty=vec(pen))]   # REAL code
        feas = [i for i in range(n) if pk[i] == "real" and bool(pen[i] <= 0)]
        infeas = [i for i in range(n) if pk[i] == "real" and i not in feas]
        nanp = [i for i in range(n) if pk[i] == "nan"]
        want, r = peel(feas, pts)
        # infeasible: by increasing penalty (ties share a rank)
        left = list(infeas)
        while left:
            mn = [i for i in left if not any(bool(pen[j] < pen[i]) for j in left)]
            for i in mn:
                want[i] = r
            left = [i for i in left if i not in mn]
            r += 1
        w3, r = peel(nanp, pts, start=r)
        want.update(w3)
        sx.note("scenario", dict(penalty_kinds=pk, feasible=feas, infeasible=infeas))
        sx.reach("ranked")
        assert ranks == [want[i] for i in range(n)], f"constrained ranks {ranks} != definition {[want[i] for i in range(n)]}"
        return True
    return body


IDS = [7, 3, 11, 5, 2, 13]


def make_hssp_members_body(n, d):
    def body():
        pts = [[sx.sym_real(f"p{i}_{j}") for j in range(d)] for i in range(n)]
        ref = [sx.sym_real(f"r{j}") for j in range(d)]
        for i in range(n):
            for j in range(d):
                sx.assume(pts[i][j] < ref[j])
        k = sx.choose(list(range(1, n + 1)), "subset_size")
        ids = IDS[:n]                      # the index set is arbitrary (trial indices of one front), not 0..n-1
        sel = [int(x) for x in hssp._solve_hssp(arr(pts), np.array(ids), k, vec(ref))]   # REAL code
        sx.reach("selected")
        assert len(sel) == k and len(set(sel)) == k and all(i in ids for i in sel), f"not {k} distinct members of {ids}: {sel}"
        return True
    return body


def make_hssp_ratio_body(n, d, L):
    """integer lattice {0..L-1}^d, reference point (L,..,L): coordinates enumerated through the solver (finite, complete)"""
    def body():
        pts = []
        for i in range(n):
            p = [float(sx.choose(L, f"p{i}_{j}")) for j in range(d)]
            if pts and tuple(p) < tuple(pts[-1]):
                sx.cur().abort()             # symmetry cut: input given in lexicographic order (all orders are covered for n<=3 below)
            pts.append(p)
        if n <= 3:
            perm = sx.choose(list(itertools.permutations(range(n))), "input_order")
            pts = [pts[i] for i in perm]
        ref = [float(L)] * d
        k = sx.choose(list(range(1, n)), "subset_size")
        ids = IDS[:n]
        sel = [int(x) for x in hssp._solve_hssp(np.array(pts), np.array(ids), k, np.array(ref))]    # REAL code, real NumPy
        assert len(sel) == k and len(set(sel)) == k and all(i in ids for i in sel), f"not {k} distinct members of {ids}: {sel}"
        sel = [ids.index(i) for i in sel]
        got = oracle_hv([pts[i] for i in sel], ref)
        best = max(oracle_hv([pts[i] for i in T], ref) for T in itertools.combinations(range(n), k))
        sx.reach("ratio-checked")
        assert got >= (1 - 1 / math.e) * best - 1e-9, f"HV of selection {got} < (1-1/e) * best {best}: points {pts}, k={k}, selected {sel}"
        return True
    return body


CODE = [wfg.compute_hypervolume, wfg._compute_2d, wfg._compute_hv, wfg._compute_exclusive_hv, mo._fast_non_domination_rank,
        mo._calculate_nondomination_rank, mo._is_pareto_front, mo._is_pareto_front_2d, mo._is_pareto_front_nd, hssp._solve_hssp,
        hssp._solve_hssp_on_unique_loss_vals, hssp._solve_hssp_2d, hssp._lazy_contribs_update]


def classify(c):
    import re
    m = re.sub(r"at [\w\.]+:\d+: ", "", c["message"])
    return re.sub(r"[0-9]+", "N", m)[:90]


def obligations(tier):
    q = tier == "quick"
    obs = [
        Obligation("hv-2d-n3", make_hv_body(3, 2, (False, True)), setup, CODE, bounds=dict(n=3, d=2), shard_depth=4, budget_s=900, classify=classify,
                   require_reach=["computed"], describe="2-D hypervolume == inclusion-exclusion, n=3, all ties/duplicates/dominated points"),
        Obligation("hv-3d-n2", make_hv_body(2, 3, (False, True)), setup, CODE, bounds=dict(n=2, d=3), shard_depth=3, budget_s=900, classify=classify,
                   require_reach=["computed"], describe="3-D hypervolume (WFG), n=2"),
        Obligation("hv-lattice-3d-n3", make_hv_lattice_body(3, 3, 3), setup, CODE, bounds=dict(n=3, d=3, lattice="{0..3}^3, reference (3,3,3) - boundary points included", input_orders="all"),
                   shard_depth=4, budget_s=1500, classify=classify, require_reach=["computed"], describe="3-D hypervolume (WFG recursion) == cell count on the lattice, n=3"),
        Obligation("hv-infinite", hv_inf_body, setup, CODE, bounds=dict(n=2, d=[2, 3], coords="finite/-inf, reference finite/inf"), budget_s=300,
                   classify=classify, require_reach=["computed"], describe="infinite when it is"),
        Obligation("rank-2d-n3", make_rank_body(3, 2, False), setup, CODE, bounds=dict(n=3, d=2), shard_depth=4, budget_s=900, classify=classify,
                   require_reach=["ranked"], describe="non-domination rank == peeling, 2-D n=3"),
        Obligation("rank-3d-n3", make_rank_body(3, 3, False), setup, CODE, bounds=dict(n=3, d=3), shard_depth=4, budget_s=900, classify=classify,
                   require_reach=["ranked"], describe="non-domination rank == peeling, 3-D n=3"),
        Obligation("rank-constrained-n3", make_rank_body(3, 2, True), setup, CODE, bounds=dict(n=3, d=2, penalty="z3 real or NaN per point"),
                   shard_depth=5, budget_s=900, classify=classify, require_reach=["ranked"], describe="constrained rank: feasible, by penalty, no-penalty group"),
        Obligation("hssp-members-2d", make_hssp_members_body(3, 2), setup, CODE, bounds=dict(n=3, d=2, k="1..3"), shard_depth=4, budget_s=900,
                   classify=classify, require_reach=["selected"], describe="HSSP returns the requested number of distinct members (2-D)"),
        Obligation("hssp-ratio-2d", make_hssp_ratio_body(3, 2, 3), setup, CODE, bounds=dict(n=3, d=2, lattice="{0,1,2}^2"), shard_depth=4, budget_s=900,
                   classify=classify, require_reach=["ratio-checked"], describe="(1-1/e) bound on the 2-D lattice, n=3"),
        Obligation("hssp-ratio-3d", make_hssp_ratio_body(3, 3, 3), setup, CODE, bounds=dict(n=3, d=3, lattice="{0,1,2}^3", input_orders="all"),
                   shard_depth=4, budget_s=1500, classify=classify, require_reach=["ratio-checked"], describe="(1-1/e) bound on the 3-D lattice, n=3"),
        Obligation("hssp-ratio-3d-n4", make_hssp_ratio_body(4, 3, 3), setup, CODE, bounds=dict(n=4, d=3, lattice="{0,1,2}^3", input_orders="lexicographic"),
                   shard_depth=6, budget_s=1500, classify=classify, require_reach=["ratio-checked"], describe="(1-1/e) bound on the 3-D lattice, n=4"),
    ]
    if not q:
        obs += [
            Obligation("hv-2d-n4", make_hv_body(4, 2), setup, CODE, bounds=dict(n=4, d=2), shard_depth=6, budget_s=3000, classify=classify,
                       require_reach=["computed"], describe="2-D hypervolume n=4"),
            Obligation("hv-3d-n3", make_hv_body(3, 3), setup, CODE, bounds=dict(n=3, d=3), shard_depth=6, budget_s=3000, timeout_ms=120000,
                       classify=classify, require_reach=["computed"], describe="3-D hypervolume n=3"),
            Obligation("rank-2d-n4", make_rank_body(4, 2, False), setup, CODE, bounds=dict(n=4, d=2), shard_depth=6, budget_s=3000, classify=classify,
                       require_reach=["ranked"], describe="rank 2-D n=4"),
            Obligation("rank-constrained-n4", make_rank_body(4, 2, True), setup, CODE, bounds=dict(n=4, d=2), shard_depth=6, budget_s=3000,
                       classify=classify, require_reach=["ranked"], describe="constrained rank n=4"),
            Obligation("hssp-ratio-2d-n4", make_hssp_ratio_body(4, 2, 3), setup, CODE, bounds=dict(n=4, d=2, lattice="{0,1,2}^2"), shard_depth=6,
                       budget_s=3000, classify=classify, require_reach=["ratio-checked"], describe="(1-1/e) bound, 2-D lattice n=4"),
            Obligation("hssp-ratio-3d-n4-L4", make_hssp_ratio_body(4, 3, 4), setup, CODE, bounds=dict(n=4, d=3, lattice="{0..3}^3"), shard_depth=7,
                       budget_s=3000, classify=classify, require_reach=["ratio-checked"], describe="(1-1/e) bound, 3-D lattice {0..3}^3, n=4"),
        ]
    return obs
