"""C10 — suggested values lie in the declared domain, are stable and are what gets stored (DESIGN.md §3 C10)."""
from __future__ import annotations

import math
import time
from fractions import Fraction

import numpy as np
import z3

import optuna
import optuna.distributions as od
from optuna import _transform as tr
from optuna.distributions import FloatDistribution, IntDistribution, CategoricalDistribution
from optuna.samplers import BaseSampler
from optuna.storages import InMemoryStorage, JournalStorage
from optuna.trial import Trial

import symex as sx
from symex import Obligation
from symex import f64
from symex.f64 import F64, F64Ctx, NPF64
from symex.proxies import SymBool, SymReal, SymInt
from stubs.journal_list import ListBackend

META = {
    "level": "other",
    "explanation": (
        "(a) Dispatch logic, exact: the real Trial.suggest_float/int/categorical -> _suggest -> _is_fixed_param/_is_relative_param on "
        "in-memory and journal storages with a sampler stub whose relative and independent values, and the enqueued value, are arbitrary "
        "z3 reals/ints: the value returned is the earlier value if the name was already suggested, else the fixed value, else the only "
        "point of a single-point domain, else the relative value only if contained, else the independent value; a relative value outside "
        "the domain is never returned; the stored parameter equals the returned value; a second call returns the same value. "
        "(b) Output stages of the built-in samplers: the real _untransform_numerical_param (all six branches) and "
        "_SearchSpaceTransform.untransform map EVERY point of the transformed box into the domain: ints exactly (unbounded z3 ints, z3-real "
        "point, exact because every intermediate is an integer below 2^53), plain/log floats through the clamp (nextafter/exp/log as "
        "uninterpreted monotone functions with the stated ulp bound), stepped floats under the standard floating-point error model (SymF64) "
        "followed by the real FloatDistribution._contains (|k-round(k)|<1e-8), one linear query set per concrete step."
    ),
    "assumptions": ["sample_independent returns a member of the domain (contract of samplers; the built-in output stages are (b))",
                    "stepped floats: |low| <= L, <= M grid points, high is the double nearest to low + m*step (established by C11), "
                    "floating-point operations follow fl(x op y) = (x op y)(1+d), |d|<=2^-53 (no overflow/underflow inside the bounds)",
                    "math.exp/log are monotone and exp(log(x)) is within 4 ulps of x (stated, not proved)"],
    "outside": ["the distribution of samples and the numerics upstream of the output stage (TPE/GP/CMA) other than 'returns a finite number'",
                "magnitudes beyond the stated bounds (with step=1e-5 and |low|~1e3 the error model cannot prove containment and says so)"],
}


def P(x):
    return x if isinstance(x, SymBool) else bool(x)


# ------------------------------------------------------------------------------------------ (a) dispatch
class Stub(BaseSampler):
    def __init__(self, rel, ind, space):
        self.rel, self.ind, self.space = rel, ind, space
        self.n_independent = 0

    def infer_relative_search_space(self, study, trial):
        return dict(self.space)

    def sample_relative(self, study, trial, space):
        return {name: (self.rel if name == "x" else 0.5) for name in space}

    def sample_independent(self, study, trial, name, dist):
        self.n_independent += 1
        return self.ind


def setup_dispatch(concrete):
    if concrete:
        return
    from stubs.npshim import npshim
    from stubs.shims import shim_frozen_trial, shim_tell
    od.float = sx.FloatType
    od.int = sx.IntType
    od.np = npshim
    shim_frozen_trial()
    shim_tell()


def mk_storage(kind):
    return InMemoryStorage() if kind == "inmemory" else JournalStorage(ListBackend())


def dispatch_float_body():
    backend = sx.choose(["inmemory", "journal"], "backend")
    rel, ind, fix = sx.sym_real("rel"), sx.sym_real("ind"), sx.sym_real("fix")
    low, high = 0.0, 1.0
    sx.assume((ind >= low) & (ind <= high))                 # contract of sample_independent
    space_kind = sx.choose(["none", "same", "wider", "other-name"], "relative_space")
    space = {"none": {}, "same": {"x": FloatDistribution(0.0, 1.0)}, "wider": {"x": FloatDistribution(-1.0, 2.0)},
             "other-name": {"y": FloatDistribution(0.0, 1.0)}}[space_kind]
    fixed = bool(sx.choose(2, "enqueued"))
    single = bool(sx.choose(2, "single_point_domain"))
    sampler = Stub(rel, ind, space)
    study = optuna.create_study(sampler=sampler, storage=mk_storage(backend))
    if fixed:
        study.enqueue_trial({"x": fix})
    t = study.ask()
    lo, hi = (0.5, 0.5) if single else (low, high)
    v = t.suggest_float("x", lo, hi)                                     # REAL code
    v2 = t.suggest_float("x", lo, hi)
    v3 = t.suggest_float("x", -5.0, 5.0)                                 # different range, same name: first value is kept
    stored = study._storage.get_trial(t._trial_id).params["x"]
    params_view = t.params["x"]
    sx.reach("suggested")
    sx.note("scenario", dict(backend=backend, space=space_kind, fixed=fixed, single=single))
    conds = [sx.eq_nan(v, v2), sx.eq_nan(v, v3), sx.eq_nan(stored, v), sx.eq_nan(params_view, v)]
    if fixed:
        conds.append(v == fix)                                            # enqueued value wins verbatim (even out of range)
    elif single:
        conds.append(v == 0.5)
    elif space_kind in ("same", "wider"):
        inside = (rel >= lo) & (rel <= hi)
        conds.append(sx.ite(inside, rel, ind) == v)
        conds.append((v >= lo) & (v <= hi))                               # a relative value outside the domain is never returned
    else:
        conds.append(v == ind)
    return sx.all_of(conds)


def dispatch_int_body():
    backend = sx.choose(["inmemory", "journal"], "backend")
    step = sx.choose([1, 3], "step")
    rel, ind, fix = sx.sym_int("rel", -20, 40), sx.sym_int("ind", 0, 12), sx.sym_int("fix", -20, 40)
    low, high = 0, 12
    sx.assume((ind - low) % step == 0)
    in_space = bool(sx.choose(2, "relative_space"))
    fixed = bool(sx.choose(2, "enqueued"))
    sampler = Stub(rel, ind, {"x": IntDistribution(low, high, step=step)} if in_space else {})
    study = optuna.create_study(sampler=sampler, storage=mk_storage(backend))
    if fixed:
        study.enqueue_trial({"x": fix})
    t = study.ask()
    v = t.suggest_int("x", low, high, step=step)
    v2 = t.suggest_int("x", low, high, step=step)
    stored = study._storage.get_trial(t._trial_id).params["x"]
    sx.reach("suggested")
    conds = [v == v2, stored == v]
    if fixed:
        conds.append(v == fix)
    elif in_space:
        inside = (rel >= low) & (rel <= high) & ((rel - low) % step == 0)
        conds.append(sx.ite(inside, rel, ind) == v)
        conds.append((v >= low) & (v <= high) & ((v - low) % step == 0))
    else:
        conds.append(v == ind)
    return sx.all_of(conds)


def dispatch_categorical_body():
    backend = sx.choose(["inmemory", "journal"], "backend")
    choices = ["a", "b", None]
    rel = sx.choose(["a", "b", None, "zzz", 7], "rel")
    ind = sx.choose(choices, "ind")
    in_space = bool(sx.choose(2, "relative_space"))
    fixed = sx.choose(["no", "a", None, "out-of-choices"], "enqueued")
    sampler = Stub(rel, ind, {"x": CategoricalDistribution(choices)} if in_space else {})
    study = optuna.create_study(sampler=sampler, storage=mk_storage(backend))
    if fixed != "no":
        study.enqueue_trial({"x": fixed})
    t = study.ask()
    try:
        v = t.suggest_categorical("x", choices)
    except ValueError:
        # a value that is not one of the choices cannot be stored: raising is the only acceptable alternative to returning a choice
        sx.reach("rejected")
        assert (fixed == "out-of-choices") or (fixed == "no" and in_space and rel not in choices), "ValueError for a valid value"
        return True
    v2 = t.suggest_categorical("x", choices)
    stored = study._storage.get_trial(t._trial_id).params["x"]
    sx.reach("suggested")
    assert v in choices, f"{v!r} is not one of the choices"
    assert v2 == v and stored == v
    if fixed != "no":
        assert v == fixed
    elif in_space and rel in choices:
        assert v == rel
    else:
        assert v == ind
    return True


# ------------------------------------------------------------------------------------------ (b) output stages
class MathModel:
    """math with exp/log as uninterpreted monotone functions: exp(log(x)) within 4 ulps of x"""

    def __init__(self):
        self.logs = []      # (x term, L term)

    def __getattr__(self, n):
        return getattr(math, n)

    def log(self, x):
        if not (sx.is_sym(x) or f64.is_f64(x)):
            return math.log(x)
        ex = sx.cur()
        L = z3.Real(ex.fresh_name("log"))
        xe = sx.proxies.to_real(x) if not f64.is_f64(x) else f64.lift(x)[0]
        for (x2, L2) in self.logs:       # monotone
            ex.add(z3.And(z3.Implies(xe <= x2, L <= L2), z3.Implies(xe >= x2, L >= L2)))
        self.logs.append((xe, L))
        return SymReal(L)

    def exp(self, t):
        if not sx.is_sym(t):
            return math.exp(t)
        ex = sx.cur()
        e = z3.Real(ex.fresh_name("exp"))
        ex.add(e > 0)
        u4 = sx.proxies.rv(Fraction(4, 2 ** 53))
        for (x, L) in self.logs:
            ex.add(z3.And(z3.Implies(t.e >= L, e >= x * (1 - u4)), z3.Implies(t.e <= L, e <= x * (1 + u4))))
        return SymReal(e)


class NP01(NPF64):
    """object arrays wherever the module under test asks for float64 arrays (they will hold proxies)"""

    def empty(self, shape, dtype=None, **k):
        return np.empty(shape, dtype=object) if dtype in (np.float64, float) else np.empty(shape, dtype=dtype, **k)

    def zeros(self, shape, dtype=None, **k):
        if dtype in (np.float64, float, None):
            a = np.empty(shape, dtype=object)
            a.fill(0.0)
            return a
        return np.zeros(shape, dtype=dtype, **k)

    def array(self, a, *args, **k):
        return np.array(a, dtype=object)


def setup_kernels(concrete):
    if concrete:
        return
    from stubs.journal_list import JsonModel
    npk = NP01()
    tr.np = npk
    tr.float = f64.float_shim
    tr.int = sx.IntType
    od.float = f64.float_shim if False else _FloatAny
    od.int = sx.IntType
    od.np = npk
    od.round = round
    od.abs = abs
    od.json = JsonModel()


class _FloatAnyMeta(type):
    def __instancecheck__(cls, o):
        return isinstance(o, float) or sx.is_symnum(o) or f64.is_f64(o)

    def __call__(cls, x=0.0):
        if isinstance(x, SymInt):
            return x                       # float(int) exact below 2^53
        return f64.float_shim(x)


class _FloatAny(metaclass=_FloatAnyMeta):
    pass


B53 = 2 ** 53


def make_int_kernel_body(step, log):
    def body():
        low = sx.sym_int("low", -(2 ** 40), 2 ** 40)
        high = sx.sym_int("high", -(2 ** 40), 2 ** 40)
        sx.assume(low <= high)
        if log:
            sx.assume(low >= 1)
            mm = MathModel()
            tr.math = mm
        d = IntDistribution(low, high, log=log, step=step)
        t = sx.sym_real("t")                                         # ANY finite point, not only the box
        transform_log = bool(sx.choose(2, "transform_log")) if log else True
        if log and not transform_log:
            sx.assume(t.is_integer() & (t >= low) & (t <= d.high))   # without log transform the point is the integer itself
        v = tr._untransform_numerical_param(t, d, transform_log)     # REAL code
        sx.reach("untransformed")
        assert isinstance(v, (int, SymInt)), f"int parameter of type {type(v).__name__}"
        return sx.all_of([P(d._contains(d.to_internal_repr(v))), v >= low, v <= high, (v - low) % step == 0])
    return body


def float_plain_kernel_body():
    log = bool(sx.choose(2, "log"))
    low, high = sx.sym_real("low"), sx.sym_real("high")
    sx.assume(low <= high)
    if log:
        sx.assume(low > 0)
    mm = MathModel()
    tr.math = mm
    d = FloatDistribution(low, high, log=log)
    transform_log = bool(sx.choose(2, "transform_log"))
    bounds, _, _ = tr._transform_search_space({"x": d}, transform_log, True)      # REAL code: the transformed box
    blo, bhi = bounds[0][0], bounds[0][1]
    t = sx.sym_real("t")
    sx.assume((t >= blo) & (t <= bhi))
    concrete = sx.cur().concrete
    if not concrete:
        tr.np.known_doubles = [low.e]
    v = tr._untransform_numerical_param(t, d, transform_log)                       # REAL code
    if not concrete:
        for (h, a) in NPF64.last_nextafter:
            sx.assume(sx.implies(low < high, SymReal(h) >= low))       # doubles low < high  =>  nextafter(high, -inf) >= low
        NPF64.last_nextafter.clear()
    sx.reach("untransformed")
    u4 = Fraction(4, 2 ** 53)
    if log and transform_log:
        # up to a few ulps of rounding from exp(log(.)); the clamp makes the upper bound exact unless the domain is a single point
        return sx.all_of([v >= low * (1 - u4), v <= high * (1 + u4), sx.implies(low < high, v <= high)])
    return sx.all_of([v >= low, v <= high, P(d._contains(v))])


def make_float_step_kernel_body(step, L=1000, M=1000):
    """probe-derived: stepped float under the floating-point error model, followed by the REAL _contains"""
    def body():
        stepf = float(step)
        stepq = Fraction(stepf)
        F64Ctx.B = Fraction(L) + M * stepq + 1
        low = sx.sym_real("low", -L, L)
        m = sx.sym_int("m", 1, M)
        high = sx.sym_real("high")
        t = sx.sym_real("t")
        half = stepq / 2
        d = FloatDistribution.__new__(FloatDistribution)              # constructor bypass: its Decimal path is C11's subject
        if sx.cur().concrete:
            # replay with ordinary doubles against the unmodified code
            sx.assume(abs(Fraction(high) - (Fraction(low) + m * stepq)) <= Fraction(1, 2 ** 53) * F64Ctx.B)
            sx.assume(Fraction(low) - half <= Fraction(t) <= Fraction(high) + half)
            d.low, d.high, d.step, d.log = low, high, stepf, False
            v = tr._untransform_numerical_param(t, d, True)
            c = d._contains(v)
            return bool(c)
        e = Fraction(1, 2 ** 53) * F64Ctx.B
        # high is the double nearest to low + m*step (C11): |high - (low + m*step)| <= u*B
        exact_high = SymReal(low.e + z3.ToReal(m.e) * sx.proxies.rv(stepq))
        sx.assume((high >= exact_high - e) & (high <= exact_high + e))
        sx.assume((t >= low - half) & (t <= high + half))            # the transformed box of a stepped float
        d.low, d.high, d.step, d.log = F64(low.e), F64(high.e), stepf, False
        v = tr._untransform_numerical_param(F64(t.e), d, True)        # REAL code on float-model proxies
        c = d._contains(v)                                            # REAL code: low <= v <= high and |k - round(k)| < 1e-8
        sx.reach("untransformed")
        return P(c)
    return body


def transform01_body():
    """_SearchSpaceTransform.untransform with transform_0_1 over a small mixed space (exact reals): every point of [0,1]^n maps into the domain"""
    kind = sx.choose(["float", "int", "int-step", "cat", "single"], "kind")
    d = {"float": FloatDistribution(0.1, 0.3), "int": IntDistribution(-3, 4), "int-step": IntDistribution(1, 10, step=3),
         "cat": CategoricalDistribution(["a", "b", "c"]), "single": FloatDistribution(0.5, 0.5)}[kind]
    space = {"p": d, "q": FloatDistribution(-1.0, 1.0)}
    tlog = True
    trans = tr._SearchSpaceTransform(space, transform_log=tlog, transform_step=True, transform_0_1=True)
    n = trans.bounds.shape[0]
    pt = np.empty(n, dtype=object)
    for i in range(n):
        pt[i] = sx.sym_real(f"u{i}", 0, 1)
    tr.np.known_doubles = []
    params = trans.untransform(pt)                                    # REAL code
    for (h, a) in NPF64.last_nextafter:
        sx.assume(SymReal(h) >= SymReal(a) - Fraction(1, 2 ** 20))   # nextafter(high) is within 2^-20 of high for |high| <= 1
    NPF64.last_nextafter.clear()
    sx.reach("untransformed")
    conds = []
    for name, dist in space.items():
        v = params[name]
        conds.append(P(dist._contains(dist.to_internal_repr(v))))
    return sx.all_of(conds)


def random_sampler_body():
    """the real RandomSampler.sample_independent over a SEQUENCE of distributions for the same name (ranges change between trials);
    the rng draw is an arbitrary point of the transformed box"""
    from optuna.samplers import RandomSampler

    class RNG:
        def __init__(self):
            self.n = 0

        def uniform(self, lo, hi):
            out = np.empty(len(lo), dtype=object)
            for i in range(len(lo)):
                self.n += 1
                u = sx.sym_real(f"draw{self.n}")
                sx.assume((u >= lo[i]) & (u <= hi[i]))
                out[i] = u
            return out

    class Lazy:
        def __init__(self):
            self.rng = RNG()
    sampler = RandomSampler(seed=0)
    sampler._rng = Lazy()
    kind = sx.choose(["int", "float"], "kind")
    conds = []
    for k in range(2):
        low = sx.choose([-3, -2, -1, 0], f"low{k}")
        high = sx.choose([2, 3], f"high{k}")
        d = IntDistribution(low, high) if kind == "int" else FloatDistribution(float(low), float(high))
        tr.np.known_doubles = []
        v = sampler.sample_independent(None, None, "x", d)                  # REAL code
        for (h, a) in NPF64.last_nextafter:
            sx.assume(SymReal(h) >= SymReal(a) - 1)
        NPF64.last_nextafter.clear()
        conds.append(P(d._contains(d.to_internal_repr(v))))
        conds.append((v >= low) & (v <= high))
    sx.reach("sampled")
    return sx.all_of(conds)


def transform_roundtrip_body():
    """untransform(transform(cfg)) == cfg on the grid, with and without transform_0_1, including ranges that are narrow relative to their magnitude"""
    kind = sx.choose(["int-narrow", "int-step", "int-log-narrow", "float-narrow", "float", "cat"], "kind")
    t01 = bool(sx.choose(2, "transform_0_1"))
    if kind == "int-narrow":
        d = IntDistribution(300000, 300001)
        v = sx.sym_int("v", 300000, 300001)
    elif kind == "int-step":
        d = IntDistribution(1, 10, step=3)
        v = 1 + 3 * sx.sym_int("k", 0, 3)
    elif kind == "int-log-narrow":
        d = IntDistribution(50000, 50002)
        v = sx.sym_int("v", 50000, 50002)
    elif kind == "float-narrow":
        d = FloatDistribution(1000.0, 1000.001)
        v = sx.sym_real("v", 1000.0, float(np.nextafter(1000.001, 0.0)))      # any double below high is <= nextafter(high)
    elif kind == "float":
        d = FloatDistribution(-1.0, 3.0)
        v = sx.sym_real("v", -1.0, float(np.nextafter(3.0, 0.0)))
    else:
        # choices of mixed types; the NaN handed to transform() is a different object from the one in the distribution, as it is after
        # a JSON / storage round trip
        import warnings
        warnings.simplefilter("ignore")
        d = CategoricalDistribution(["a", None, float("nan"), True, 2.5])
        v = [("a",), (None,), (float("nan"),), (True,), (2.5,)][sx.choose(5, "v")][0]
    space = {"p": d, "q": FloatDistribution(0.0, 1.0)}
    trans = tr._SearchSpaceTransform(space, transform_log=False, transform_step=True, transform_0_1=t01)
    tr.np.known_doubles = []
    enc = trans.transform({"p": v, "q": 0.25})                            # REAL code
    back = trans.untransform(enc)                                         # REAL code
    for (h, a) in NPF64.last_nextafter:
        sx.assume(SymReal(h) > v if sx.is_sym(v) and not isinstance(v, SymInt) else True)   # nextafter(high) lies above every double below high
    NPF64.last_nextafter.clear()
    sx.reach("roundtrip")
    if kind == "cat":
        same = (back["p"] is v) or (back["p"] == v and type(back["p"]) is type(v)) or (isinstance(v, float) and v != v and isinstance(back["p"], float) and back["p"] != back["p"])
        assert same, f"categorical round trip {v!r} -> {back['p']!r}"
        return True
    return back["p"] == v


# ------------------------------------------------------------------------------------------ TPE output stage
class NPArr(NP01):
    """elementwise round/clip on object arrays (the TPE output stage is vectorised)"""

    def round(self, x, *a, **k):
        if isinstance(x, np.ndarray) and x.dtype == object:
            out = np.empty(x.shape, dtype=object)
            for idx in np.ndindex(x.shape):
                out[idx] = NPF64.round(self, x[idx])
            return out
        return NPF64.round(self, x, *a, **k)

    def clip(self, x, lo, hi, **k):
        if isinstance(x, np.ndarray) and x.dtype == object:
            out = np.empty(x.shape, dtype=object)
            for idx in np.ndindex(x.shape):
                v = x[idx]
                if isinstance(v, f64.SymZ):
                    v = F64(z3.ToReal(v.e))
                out[idx] = NPF64.clip(self, v, lo, hi)
            return out
        return NPF64.clip(self, x, lo, hi, **k)


def make_tpe_stage_body(kind, step):
    """the real _MixtureOfProductDistribution.sample (discrete truncated normal) followed by the real _ParzenEstimator._untransform:
    whatever the truncated-normal sampler returns inside its truncation interval, the parameter is a member of the domain"""
    from optuna.samplers._tpe import probability_distributions as pdm, parzen_estimator as pem

    def body():
        npa = NPArr()
        pdm.np = npa
        pem.np = npa
        mu, sigma = np.array([0.3]), np.array([1.7])
        if kind == "int":
            low = sx.sym_int("low", -(2 ** 40), 2 ** 40)
            high_k = sx.sym_int("k", 0, 2 ** 40)
            dist = IntDistribution(low, low + high_k * step, step=step)
            lo_v, hi_v, st_v = dist.low, dist.high, step
            s_sample = sx.sym_real("sample")
            sx.assume((s_sample >= lo_v - st_v / 2) & (s_sample <= hi_v + st_v / 2))
            sample_val = s_sample
        else:
            stepq = Fraction(float(step))
            L, M = 1000, 1000
            F64Ctx.B = Fraction(L) + M * stepq + 1
            low = sx.sym_real("low", -L, L)
            m = sx.sym_int("m", 1, M)
            high = sx.sym_real("high")
            e = Fraction(1, 2 ** 53) * F64Ctx.B
            exact_high = SymReal(low.e + z3.ToReal(m.e) * sx.proxies.rv(stepq))
            sx.assume((high >= exact_high - e) & (high <= exact_high + e))
            dist = FloatDistribution.__new__(FloatDistribution)
            dist.low, dist.high, dist.step, dist.log = F64(low.e), F64(high.e), float(step), False
            lo_v, hi_v, st_v = dist.low, dist.high, float(step)
            s_sample = sx.sym_real("sample")
            sx.assume((s_sample >= low - stepq / 2) & (s_sample <= high + stepq / 2))
            sample_val = F64(s_sample.e)

        class TN:
            @staticmethod
            def rvs(a, b, loc, scale, random_state):
                out = np.empty(1, dtype=object)
                out[0] = sample_val           # ANY point of the truncation interval [low - step/2, high + step/2]
                return out

        class RNG:
            def choice(self, n, p=None, size=None):
                return np.zeros(size, dtype=int)

            def rand(self, n):
                return np.full(n, 0.5)
        pdm._truncnorm = TN
        mix = pdm._MixtureOfProductDistribution(weights=np.array([1.0]),
                                                distributions=[pdm._BatchedDiscreteTruncNormDistributions(mu, sigma, lo_v, hi_v, st_v)])
        arr = mix.sample(RNG(), 1)                                        # REAL code
        fake_self = type("PE", (), {"_search_space": {"p": dist}, "_is_log": staticmethod(pem._ParzenEstimator._is_log)})()
        out = pem._ParzenEstimator._untransform(fake_self, arr)          # REAL code
        v = out["p"][0]
        sx.reach("sampled")
        if kind == "int":
            if isinstance(v, SymReal):
                return sx.all_of([v >= lo_v, v <= hi_v, v.is_integer(), ((v - lo_v) % step) == 0])
            return P(dist._contains(v))
        return P(dist._contains(v))
    return body


def tpe_continuous_stage_body():
    """continuous float under TPE: the real _MixtureOfProductDistribution.sample (truncated-normal branch) followed by the real
    _ParzenEstimator._untransform. NOTHING is assumed about what the numeric kernel _truncnorm.rvs returns (its numerics are C18 and
    outside this technique; with kernels centred hundreds of sigma away - observations made with another range - it does leave the
    interval): the output stage itself must keep the parameter inside [low, high]"""
    from optuna.samplers._tpe import probability_distributions as pdm, parzen_estimator as pem
    npa = NPArr()
    pdm.np = npa
    pem.np = npa
    low = sx.sym_real("low")
    width = sx.sym_real("width")
    sx.assume(width >= 0)
    high = low + width
    dist = FloatDistribution.__new__(FloatDistribution)
    dist.low, dist.high, dist.step, dist.log = low, high, None, False
    kernel_out = sx.sym_float("kernel_output", ("finite", "inf"))

    class TN:
        @staticmethod
        def rvs(a, b, loc, scale, random_state):
            out = np.empty(1, dtype=object)
            out[0] = kernel_out
            return out

    class RNG:
        def choice(self, n, p=None, size=None):
            return np.zeros(size, dtype=int)

        def rand(self, n):
            return np.full(n, 0.5)
    pdm._truncnorm = TN
    mix = pdm._MixtureOfProductDistribution(weights=np.array([1.0]),
                                            distributions=[pdm._BatchedTruncNormDistributions(np.array([0.3]), np.array([1.7]), low, high)])
    arr = mix.sample(RNG(), 1)                                        # REAL code
    fake_self = type("PE", (), {"_search_space": {"p": dist}, "_is_log": staticmethod(pem._ParzenEstimator._is_log)})()
    out = pem._ParzenEstimator._untransform(fake_self, arr)          # REAL code
    v = out["p"][0]
    sx.reach("sampled")
    return sx.all_of([v >= low, v <= high])


def tpe_far_history_witness():
    """concrete companion of tpe-stage-continuous with the REAL numeric kernel: TPESampler after 12 trials that used the range
    (100, 200) for 'x' is asked for 'x' in (0.1, 0.7); every value must be inside the new range"""
    import warnings
    t0 = time.time()
    warnings.simplefilter("ignore")
    optuna.logging.set_verbosity(optuna.logging.ERROR)
    bad = []
    n = 0
    for seed in (0, 1):
        for (old, new) in (((100.0, 200.0), (0.1, 0.7)), ((-1e6, -1e5), (3.0, 4.0)), ((0.1, 0.7), (100.0, 200.0))):
            s = optuna.create_study(sampler=optuna.samplers.TPESampler(seed=seed), storage=InMemoryStorage())
            s.optimize(lambda t: t.suggest_float("x", *old), n_trials=12)
            for i in range(6):
                t = s.ask()
                x = t.suggest_float("x", *new)
                n += 1
                if not (new[0] <= x <= new[1]):
                    bad.append(dict(seed=seed, earlier_range=old, range=new, value=x))
                s.tell(t, x)
    res = {"result": "ok" if not bad else "out-of-range", "queries": 0, "wall_s": time.time() - t0, "programs": n,
           "samples": [dict(histories=6, draws=n, out_of_range=len(bad))]}
    if bad:
        res["cex"] = [{"key": "tpe:continuous-float:out-of-range-after-history-with-distant-range", "pre_replayed": True, "values": {}, "choices": [],
                       "notes": bad[0], "kind": "concrete-witness",
                       "message": f"TPESampler returned {bad[0]['value']} for suggest_float('x', {bad[0]['range'][0]}, {bad[0]['range'][1]}) after a history with range {bad[0]['earlier_range']}"}]
    return res


def setup_transform01(concrete):
    setup_kernels(concrete)


CODE = [Trial.suggest_float, Trial.suggest_int, Trial.suggest_categorical, Trial._suggest, Trial._is_fixed_param, Trial._is_relative_param,
        Trial._check_distribution, tr._untransform_numerical_param, tr._transform_numerical_param, tr._transform_search_space,
        tr._SearchSpaceTransform.untransform, FloatDistribution._contains, IntDistribution._contains, InMemoryStorage.set_trial_param,
        JournalStorage.set_trial_param]


def classify(c):
    import re
    m = re.sub(r"at [\w\.]+:\d+: ", "", c["message"])
    sc = c.get("notes", {}).get("scenario", {})
    return f"{sc.get('backend', '')}{sc.get('space', '')}|{re.sub(r'[0-9]+', 'N', m)[:90]}"


def obligations(tier):
    q = tier == "quick"
    obs = [
        Obligation("dispatch-float", dispatch_float_body, setup_dispatch, CODE, bounds=dict(values="z3 reals", spaces=4, backends=2),
                   budget_s=600, classify=classify, require_reach=["suggested"], describe="suggest_float dispatch: earlier > fixed > single > relative-if-contained > independent"),
        Obligation("dispatch-int", dispatch_int_body, setup_dispatch, CODE, bounds=dict(values="z3 ints", steps=[1, 3], backends=2),
                   budget_s=600, classify=classify, require_reach=["suggested"], describe="suggest_int dispatch"),
        Obligation("dispatch-categorical", dispatch_categorical_body, setup_dispatch, CODE, bounds=dict(choices=3, backends=2),
                   budget_s=600, classify=classify, require_reach=["suggested", "rejected"], describe="suggest_categorical dispatch"),
        Obligation("kernel-float-plain-log", float_plain_kernel_body, setup_kernels, CODE, bounds=dict(low_high="z3 reals", point="the transformed box"),
                   budget_s=600, classify=classify, require_reach=["untransformed"], describe="_untransform_numerical_param: plain and log floats"),
        Obligation("transform-0-1", transform01_body, setup_transform01, CODE, bounds=dict(space="2 parameters, 5 kinds", point="[0,1]^n z3 reals"),
                   budget_s=900, timeout_ms=120000, classify=classify, require_reach=["untransformed"],
                   describe="_SearchSpaceTransform.untransform(transform_0_1=True): every point of the unit box maps into the domain"),
    ]
    obs.append(Obligation("random-sampler-sequence", random_sampler_body, setup_transform01, CODE, bounds=dict(trials=2, low=[-3, -2, -1, 0], high=[2, 3], kinds=["int", "float"]),
                          budget_s=600, classify=classify, require_reach=["sampled"],
                          describe="RandomSampler.sample_independent for the same name with changing ranges: every draw of the box maps into the CURRENT domain"))
    obs.append(Obligation("transform-roundtrip", transform_roundtrip_body, setup_transform01, CODE, bounds=dict(kinds=6, transform_0_1=[True, False]),
                          budget_s=600, classify=classify, require_reach=["roundtrip"],
                          describe="untransform(transform(cfg)) == cfg incl. narrow ranges at large magnitude"))
    obs.append(Obligation("tpe-stage-continuous", tpe_continuous_stage_body, setup_kernels, CODE, bounds=dict(low_high="z3 reals", kernel_output="ANY real or +-inf"),
                          budget_s=300, classify=classify, require_reach=["sampled"],
                          describe="TPE continuous output stage: inside [low, high] whatever the numeric kernel returns"))
    obs.append(Obligation("tpe-far-history-witness", None, None, [], custom=tpe_far_history_witness,
                          describe="CONCRETE companion: real TPESampler (real truncated-normal kernel) after a history with a distant range for the same name"))
    for st in ([1, 3] if q else [1, 2, 3, 5, 7]):
        obs.append(Obligation(f"tpe-stage-int-step{st}", make_tpe_stage_body("int", st), setup_kernels, CODE, bounds=dict(low_high="z3 ints", step=st, sample="any point of the truncation interval"),
                              budget_s=600, classify=classify, require_reach=["sampled"], describe=f"TPE discrete output stage + _untransform, IntDistribution step={st}"))
    for st in ([0.25] if q else [0.25, 0.1, 1.0]):
        obs.append(Obligation(f"tpe-stage-float-step{st}", make_tpe_stage_body("float", st), setup_kernels, CODE, bounds=dict(step=st, abs_low="<=1000", grid_points="<=1000"),
                              budget_s=900, timeout_ms=300000, classify=classify, require_reach=["sampled"], describe=f"TPE discrete output stage, stepped float step={st} (float error model)"))
    for st in ([1, 2, 3, 7] if q else [1, 2, 3, 4, 5, 7, 10, 16, 64]):
        obs.append(Obligation(f"kernel-int-step{st}", make_int_kernel_body(st, False), setup_kernels, CODE,
                              bounds=dict(low_high="z3 ints, |x|<=2^40", point="ANY z3 real", step=st), budget_s=600, classify=classify,
                              require_reach=["untransformed"], describe=f"_untransform_numerical_param: IntDistribution step={st}"))
    obs.append(Obligation("kernel-int-log", make_int_kernel_body(1, True), setup_kernels, CODE, bounds=dict(low=">=1", exp="uninterpreted positive"),
                          budget_s=600, classify=classify, require_reach=["untransformed"], describe="_untransform_numerical_param: IntDistribution(log=True)"))
    for st in ([1.0, 0.25, 0.1] if q else [1.0, 0.25, 0.1, 0.5, 0.01, 0.001, 2.5, 3.0, 7.0]):
        obs.append(Obligation(f"kernel-float-step{st}", make_float_step_kernel_body(st), setup_kernels, CODE,
                              bounds=dict(step=st, abs_low="<=1000", grid_points="<=1000", model="fl(x op y)=(x op y)(1+d), |d|<=2^-53"),
                              budget_s=900, timeout_ms=300000, classify=classify, require_reach=["untransformed"],
                              describe=f"stepped float under the float error model + real _contains, step={st}"))
    return obs
