"""C17 — incrementally inferred search spaces equal a from-scratch computation (DESIGN.md §3 C17)."""
from __future__ import annotations

import optuna
from optuna.distributions import FloatDistribution
from optuna.search_space import IntersectionSearchSpace, intersection_search_space
from optuna.search_space import intersection as inter_mod
from optuna.search_space.group_decomposed import _GroupDecomposedSearchSpace, _SearchSpaceGroup
from optuna.storages import InMemoryStorage
from optuna.trial import TrialState

import symex as sx
from symex import Obligation

META = {
    "level": "other",
    "explanation": (
        "Bounded symbolic execution of the real IntersectionSearchSpace.calculate/_calculate and _GroupDecomposedSearchSpace.calculate/"
        "_SearchSpaceGroup.add_distributions against a real Study on InMemoryStorage whose history evolves over epochs: which parameters "
        "each trial has, when it finishes and in which state (so lower numbers may finish after higher ones), whether new RUNNING/WAITING "
        "trials are appended, whether RUNNING trials gain parameters and whether the calculators are called in an epoch are explorer forks; "
        "the distribution of a name is FloatDistribution(0, h) with h a z3 real per (trial, name), so equal/different distributions for a "
        "name are decided by the solver. After every call: incremental == independent from-scratch definition == intersection_search_space; "
        "never grows; groups form a partition compatible with every qualifying trial."
    ),
    "assumptions": ["distributions differ only in `high` (a z3 real); FloatDistribution objects are built without the constructor "
                    "(its float()/Decimal checks are C11's subject)"],
    "outside": ["more than 4 trials / 2 names / 3 epochs (the cursor logic compares trial numbers only; small scopes exercise every branch - stated, not proved)"],
}

NAMES = ["x", "y"]
FIN = ["COMPLETE", "PRUNED", "FAIL"]


def mkdist(h):
    d = FloatDistribution.__new__(FloatDistribution)
    d.low, d.high, d.log, d.step = 0.0, h, False, None
    return d


def oracle(trials, include_pruned):
    """definition: names present with an equal distribution in every finished qualifying trial"""
    ok = [TrialState.COMPLETE] + ([TrialState.PRUNED] if include_pruned else [])
    q = [t for t in trials if t.state in ok]
    if not q:
        return {}
    out = {}
    for name, dist in q[0].distributions.items():
        if all(name in t.distributions and bool(t.distributions[name] == dist) for t in q[1:]):
            out[name] = dist
    return out


def make_body(n_initial, epochs, allow_append, allow_gain, append_epochs=None):
    def body():
        storage = InMemoryStorage()
        study = optuna.create_study(storage=storage, sampler=optuna.samplers.RandomSampler(seed=0))
        sid = study._study_id
        hcount = [0]

        def add_params(tid, tag, names):
            for name in names:
                if sx.choose(2, f"{tag}.has_{name}"):
                    hcount[0] += 1
                    storage.set_trial_param(tid, name, 0.0, mkdist(sx.sym_real(f"h{hcount[0]}_{name}", 1, None)))

        def new_trial(tag, waiting):
            if waiting:
                study.enqueue_trial({})
                tid = storage.get_all_trials(sid, deepcopy=False)[-1]._trial_id
            else:
                tid = storage.create_new_trial(sid)
                add_params(tid, tag, NAMES)
            return tid
        tids = []
        for i in range(n_initial):
            waiting = bool(sx.choose(2, f"t{i}.waiting")) if i == n_initial - 1 and i > 0 else False
            tids.append(new_trial(f"t{i}", waiting))
        calcs = {ip: (IntersectionSearchSpace(include_pruned=ip), _GroupDecomposedSearchSpace(ip)) for ip in (False, True)}
        prev = {False: None, True: None}
        log = []
        for e in range(epochs):
            for k, tid in enumerate(list(tids)):
                t = storage.get_trial(tid)
                if t.state.is_finished():
                    continue
                act = sx.choose(["stay", "finish"] + (["gain"] if allow_gain and t.state == TrialState.RUNNING else []) +
                                (["start"] if t.state == TrialState.WAITING else []), f"e{e}.t{k}")
                if act == "finish":
                    st = TrialState[sx.choose(FIN, f"e{e}.t{k}.state")]
                    if t.state == TrialState.WAITING:
                        storage.set_trial_state_values(tid, TrialState.RUNNING)
                    storage.set_trial_state_values(tid, st, [0.0] if st == TrialState.COMPLETE else None)
                    log.append((e, k, st.name))
                elif act == "gain":
                    missing = [n for n in NAMES if n not in t.distributions]
                    if not missing:
                        sx.cur().abort()
                    add_params(tid, f"e{e}.t{k}.gain", missing[:1])
                    log.append((e, k, "gain"))
                elif act == "start":
                    storage.set_trial_state_values(tid, TrialState.RUNNING)
                    add_params(tid, f"e{e}.t{k}.start", NAMES)
                    log.append((e, k, "start"))
            if allow_append and (append_epochs is None or e in append_epochs) and sx.choose(2, f"e{e}.append"):
                tids.append(new_trial(f"e{e}.new", bool(sx.choose(2, f"e{e}.new.waiting"))))
                log.append((e, "append"))
            if e == epochs - 1 or sx.choose(2, f"e{e}.call"):
                sx.reach("calculator-called")
                trials = study.get_trials(deepcopy=False)
                sx.note("scenario", dict(log=list(log), trials=[(t.number, t.state.name, sorted(t.distributions)) for t in trials], epoch=e))
                for ip in (False, True):
                    iss, gd = calcs[ip]
                    got = iss.calculate(study)
                    want = oracle(trials, ip)
                    want2 = intersection_search_space(trials, ip)
                    assert set(got) == set(want) and all(bool(got[n] == want[n]) for n in got), \
                        f"include_pruned={ip}: incremental {sorted(got)} != from-scratch definition {sorted(want)}"
                    assert set(want2) == set(want) and all(bool(want2[n] == want[n]) for n in want2), \
                        f"include_pruned={ip}: intersection_search_space {sorted(want2)} != definition {sorted(want)}"
                    assert list(got) == sorted(got), "result not sorted by name"
                    if prev[ip] is not None:
                        assert set(got) <= set(prev[ip]), f"include_pruned={ip}: search space grew from {sorted(prev[ip])} to {sorted(got)}"
                    qual = [t for t in trials if t.state == TrialState.COMPLETE or (ip and t.state == TrialState.PRUNED)]
                    if qual:
                        prev[ip] = got
                        sx.reach("established")
                    res_g = gd.calculate(study)
                    groups = [set(g) for g in res_g.search_spaces]
                    # the caller owns the returned object too: adding a junk group to it must not leak into later results
                    res_g.add_distributions({"zz-junk": FloatDistribution(0, 1)})
                    assert all(a.isdisjoint(b) for i, a in enumerate(groups) for b in groups[i + 1:]), f"groups overlap: {groups}"
                    seen = set().union(*[set(t.distributions) for t in qual]) if qual else set()
                    assert set().union(*groups) == seen if groups else not seen, f"groups {groups} do not cover seen parameters {seen}"
                    for t in qual:
                        ps = set(t.distributions)
                        assert ps == set().union(*[g for g in groups if g & ps]) if ps else True, f"trial {t.number} params {ps} not a union of groups {groups}"
        return True
    return body


def setup(concrete):
    pass


CODE = [inter_mod._calculate, IntersectionSearchSpace.calculate, intersection_search_space, _SearchSpaceGroup.add_distributions,
        _GroupDecomposedSearchSpace.calculate]


def classify(c):
    import re
    m = re.sub(r"at [\w\.]+:\d+: ", "", c["message"])
    m = re.sub(r"\[[^\]]*\]|\{[^\}]*\}", "_", m)
    return m[:100]


def obligations(tier):
    if tier == "quick":
        return [
            Obligation("incremental-append", make_body(2, 2, True, False, append_epochs=(0,)), setup, CODE,
                       bounds=dict(initial_trials=2, epochs=2, names=NAMES, append="epoch 0", gain=False),
                       shard_depth=5, budget_s=900, classify=classify, require_reach=["calculator-called", "established"],
                       describe="2 initial trials, 2 epochs, a RUNNING/WAITING trial may be appended in between"),
            Obligation("incremental-gain", make_body(2, 2, False, True), setup, CODE, bounds=dict(initial_trials=2, epochs=2, names=NAMES, gain=True),
                       shard_depth=5, budget_s=900, classify=classify, require_reach=["calculator-called", "established"],
                       describe="2 initial trials, RUNNING trials gain parameters between calls"),
            Obligation("incremental-3trials", make_body(3, 2, False, False), setup, CODE, bounds=dict(initial_trials=3, epochs=2, names=NAMES),
                       shard_depth=6, budget_s=900, classify=classify, require_reach=["calculator-called", "established"],
                       describe="3 initial trials finishing out of creation order over 2 epochs"),
        ]
    return [
        Obligation("incremental-2trials-full", make_body(2, 2, True, True), setup, CODE, bounds=dict(initial_trials=2, epochs=2, names=NAMES, append=True, gain=True),
                   shard_depth=7, budget_s=3000, classify=classify, require_reach=["calculator-called", "established"],
                   describe="2 initial trials, 2 epochs, appended trials and gains in every epoch"),
        Obligation("incremental-3trials-3epochs", make_body(3, 3, False, False), setup, CODE, bounds=dict(initial_trials=3, epochs=3, names=NAMES),
                   shard_depth=7, budget_s=3000, classify=classify, require_reach=["calculator-called", "established"],
                   describe="3 initial trials, 3 epochs"),
        Obligation("incremental-3trials-append", make_body(3, 2, True, False, append_epochs=(0,)), setup, CODE, bounds=dict(initial_trials=3, epochs=2, append="epoch 0"),
                   shard_depth=7, budget_s=3000, classify=classify, require_reach=["calculator-called", "established"],
                   describe="3 initial trials, 2 epochs, appended trial"),
    ]
