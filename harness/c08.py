"""C08 — client-side trial caches never serve a view that differs from the backend (DESIGN.md §3 C08)."""
from __future__ import annotations

import optuna
from optuna.storages._cached_storage import _CachedStorage
from optuna.storages._grpc import client as gclient, servicer as gservicer
from optuna.study import StudyDirection
from optuna.trial import TrialState, create_trial
from optuna.exceptions import UpdateFinishedTrialError

import symex as sx
from symex import Obligation
from stubs.fake_rdb import FakeRDB
from stubs import grpc_direct

META = {
    "level": "other",
    "explanation": (
        "Bounded symbolic execution of the real _CachedStorage cache code and the real GrpcStorageProxy/GrpcClientCache + "
        "OptunaStorageProxyService.GetTrials over one shared backend: a seed of studies/trials and a suffix of k steps in which "
        "client, operation, target trial id, state and filter are explorer forks / solver-concretised ints and objective values "
        "are z3 reals. After every step each cached client's reads (get_all_trials with filters, get_trial, number lookup, name, "
        "directions) are compared with the raw backend at that moment, and the watermark invariant is asserted."
    ),
    "assumptions": [
        "backend = FakeRDB (InMemoryStorage + _create_new_trial/_get_trials transcribing RDBStorage._get_trials' id filter); its "
        "_get_trials is compared against the real RDBStorage over SQLite by the obligation fake-rdb-conformance",
        "gRPC transport replaced by a direct call into the servicer with the real generated protobuf messages",
        "each storage call is one atomic step (thread interleavings inside one client are C03)",
    ],
    "outside": ["real RDB / SQL", "gRPC wire", "thread interleavings inside one cached client",
                "SQLite id reuse after delete_study (documented caveat of the proxy)"],
}

STATES = [TrialState.RUNNING, TrialState.COMPLETE, TrialState.PRUNED, TrialState.FAIL, TrialState.WAITING]
FILTERS = [None, (TrialState.COMPLETE,), (TrialState.RUNNING, TrialState.WAITING)]


def tkey(t):
    return (t._trial_id, t.number, t.state, None if t.values is None else tuple(t.values), tuple(sorted(t.params.items())),
            tuple(sorted((k, repr(v)) for k, v in t.user_attrs.items())), tuple(sorted(t.intermediate_values.items())))


def same_trials(got, want):
    if len(got) != len(want):
        return False
    conds = []
    for g, w in zip(got, want):
        kg, kw = tkey(g), tkey(w)
        if kg[:3] != kw[:3] or kg[4:] != kw[4:]:
            return False
        if (kg[3] is None) != (kw[3] is None):
            return False
        if kg[3] is not None:
            if len(kg[3]) != len(kw[3]):
                return False
            conds += [sx.eq_nan(a, b) for a, b in zip(kg[3], kw[3])]
    return sx.all_of(conds) if conds else True


def check_invariant(c, raw, label):
    """every backend trial of the study with id <= watermark is cached as finished or listed as unfinished"""
    if not isinstance(c, _CachedStorage):
        cache = c._cache.studies
    else:
        cache = c._studies
    for sid, info in cache.items():
        try:
            ts = raw.get_all_trials(sid, deepcopy=False)
        except KeyError:
            continue
        for t in ts:
            if t._trial_id <= info.last_finished_trial_id:
                cached = info.trials.get(t.number)
                ok = (t._trial_id in info.unfinished_trial_ids) or (cached is not None and cached.state.is_finished())
                assert ok, f"{label}: watermark {info.last_finished_trial_id} passed trial id {t._trial_id} ({t.state.name}) that was never fetched"
        for n, ct in info.trials.items():
            if ct.state.is_finished() and ct._trial_id not in info.unfinished_trial_ids:
                bt = [t for t in ts if t.number == n]
                assert bt and same_trials([ct], bt) is not False, f"{label}: cached finished trial {n} differs from backend"


_nreads = [0]


def compare_reads(c, raw, sids, label, concrete_values, stale_sink, deleted_by=None, choose_first=True):
    deleted_by = deleted_by or {}
    me = label.split('(')[0]
    # which state filter the client uses FIRST matters: an unfiltered read repairs a cache that a filtered read would have exposed
    _nreads[0] += 1
    first = sx.choose(len(FILTERS), f"read{_nreads[0]}.first_filter") if choose_first else 0
    order = [FILTERS[first]] + [f for k, f in enumerate(FILTERS) if k != first]
    for sid in sids:
        for flt in order:
            try:
                want = raw.get_all_trials(sid, deepcopy=False, states=flt)
                werr = None
            except KeyError:
                want, werr = None, KeyError
            try:
                got = c.get_all_trials(sid, deepcopy=False, states=flt)
                gerr = None
            except KeyError:
                got, gerr = None, KeyError
            assert gerr == werr, f"{label}: get_all_trials(study {sid}) error {gerr} vs backend {werr}"
            if want is not None:
                r = same_trials(got, want)
                assert r is not False, (f"{label}: get_all_trials(states={None if flt is None else [s.name for s in flt]}) = "
                                        f"{[(t.number, t.state.name) for t in got]} but backend holds {[(t.number, t.state.name) for t in want]}")
                if r is not True:
                    assert r, f"{label}: values differ"
                assert [t.number for t in got] == sorted(t.number for t in got), f"{label}: not ordered by number"
        # single-trial reads, number lookup
        try:
            allw = raw.get_all_trials(sid, deepcopy=False)
        except KeyError:
            allw = []
        for t in allw:
            g = c.get_trial(t._trial_id)
            r = same_trials([g], [t])
            assert r is not False and (r is True or bool(r)), f"{label}: get_trial({t._trial_id}) stale: {g.state.name} vs {t.state.name}"
            assert c.get_trial_id_from_study_id_trial_number(sid, t.number) == t._trial_id, f"{label}: number lookup"
        # number -> id lookup, also for numbers that do not exist and for studies that have been deleted
        for number in range(0, len(allw) + 1):
            try:
                w = raw.get_trial_id_from_study_id_trial_number(sid, number)
            except KeyError:
                w = KeyError
            try:
                g = c.get_trial_id_from_study_id_trial_number(sid, number)
            except KeyError:
                g = KeyError
            if g != w and w is KeyError and deleted_by.get(sid, me) != me:
                # the study was deleted through ANOTHER client: judged last, together with the study-level getters (known finding)
                stale_num = f"get_study_trial_number_lookup({sid}, {number}) = {g} but backend says KeyError"
                stale_sink.append(f"{label}: study-level cache stale: " + stale_num)
                continue
            assert g == w, f"{label}: get_trial_id_from_study_id_trial_number({sid}, {number}) = {g} but backend says {'KeyError' if w is KeyError else w}"
        stale = []
        for getter in ("get_study_name_from_id", "get_study_directions"):
            try:
                w = getattr(raw, getter)(sid)
            except KeyError:
                w = KeyError
            try:
                g = getattr(c, getter)(sid)
            except KeyError:
                g = KeyError
            if g != w:
                assert not (w is KeyError and deleted_by.get(sid, None) == me), f"{label}: {getter}({sid}) = {g} after this client deleted the study itself"
                stale.append(f"{getter}({sid}) = {g} but backend says {'KeyError' if w is KeyError else w}")
        if stale:
            stale_sink.append(f"{label}: study-level cache stale: " + "; ".join(stale))


def make_body(k_steps, client_kinds, with_delete, seed_trials=0, full_alphabet=False, seed_states=None, choice_reads="all"):
    def body():
        _nreads[0] = 0
        raw = FakeRDB()
        clients = []
        for kind in client_kinds:
            clients.append(_CachedStorage(raw) if kind == "cached" else grpc_direct.proxy_over(raw))
        names = [f"{kind}{i}" for i, kind in enumerate(client_kinds)]
        sids = [clients[0].create_new_study([StudyDirection.MINIMIZE], "s0"),
                clients[-1].create_new_study([StudyDirection.MINIMIZE], "s1")]
        raw.create_new_trial(sids[1])          # another study's trial shares the id space (ids != numbers)
        concrete_values = any(k == "grpc" for k in client_kinds)
        hist = []
        stale_all = []
        deleted_by = {}
        nvals = [0]

        def val():
            nvals[0] += 1
            if concrete_values:
                return float(nvals[0])
            return sx.sym_real(f"v{nvals[0]}")

        for j in range(seed_trials):
            c = sx.choose(len(clients), f"seed{j}.client")
            st = (seed_states[j] if seed_states else
                  [TrialState.RUNNING, TrialState.COMPLETE, TrialState.WAITING][sx.choose(3, f"seed{j}.state")])
            tmpl = None if st == TrialState.RUNNING else create_trial(state=st, values=[val()] if st == TrialState.COMPLETE else None)
            clients[c].create_new_trial(sids[0], tmpl)
            hist.append((names[c], "seed-create", st.name))
        OPS = ["create", "create_tmpl", "set_state", "set_attr", "read"] + (["delete"] if with_delete else [])
        if full_alphabet:
            OPS += ["set_param", "report"]
        for i in range(k_steps):
            ci = sx.choose(len(clients), f"s{i}.client")
            c = clients[ci]
            cname = names[ci]
            op = sx.choose(OPS, f"s{i}.op")
            if op == "create":
                try:
                    c.create_new_trial(sids[0])
                    hist.append((cname, op))
                except KeyError:
                    hist.append((cname, op, "KeyError"))
            elif op == "create_tmpl":
                st = [TrialState.COMPLETE, TrialState.WAITING, TrialState.FAIL][sx.choose(3 if full_alphabet else 2, f"s{i}.state")]
                try:
                    c.create_new_trial(sids[0], create_trial(state=st, values=[val()] if st == TrialState.COMPLETE else None))
                    hist.append((cname, op, st.name))
                except KeyError:
                    hist.append((cname, op, st.name, "KeyError"))
            elif op in ("set_state", "set_attr", "set_param", "report"):
                try:
                    ids = [t._trial_id for t in raw.get_all_trials(sids[0], deepcopy=False)]
                except KeyError:
                    ids = []
                if not ids:
                    sx.cur().abort()
                tid = ids[int(sx.sym_int(f"s{i}_trial", 0, len(ids) - 1))]
                try:
                    if op == "set_state":
                        st = [TrialState.COMPLETE, TrialState.FAIL, TrialState.RUNNING][sx.choose(3, f"s{i}.state")]
                        c.set_trial_state_values(tid, st, [val()] if st == TrialState.COMPLETE else None)
                        hist.append((cname, op, tid, st.name))
                    elif op == "set_attr":
                        c.set_trial_user_attr(tid, "k", i)
                        hist.append((cname, op, tid))
                    elif op == "set_param":
                        c.set_trial_param(tid, "x", 0.5, optuna.distributions.FloatDistribution(0, 1))
                        hist.append((cname, op, tid))
                    else:
                        c.set_trial_intermediate_value(tid, i, 0.25)
                        hist.append((cname, op, tid))
                except (KeyError, UpdateFinishedTrialError) as e:
                    hist.append((cname, op, tid, type(e).__name__))
            elif op == "delete":
                sid = sids[sx.choose(len(sids), f"s{i}.study")]
                try:
                    c.delete_study(sid)
                    deleted_by[sid] = cname
                    hist.append((cname, op, sid))
                except KeyError:
                    hist.append((cname, op, sid, "KeyError"))
            sx.note("history", list(hist))
            if op == "read":
                sx.reach("read")
                hist.append((cname, "read"))
                sx.note("history", list(hist))
                compare_reads(c, raw, sids[:1], cname, concrete_values, stale_all, deleted_by, choose_first=(choice_reads == "all"))
                check_invariant(c, raw, cname)
        # final: every cached client reads everything
        for c, cname in zip(clients, names):
            compare_reads(c, raw, sids, cname + "(final)", concrete_values, stale_all, deleted_by)
            check_invariant(c, raw, cname + "(final)")
        # study-level getters are judged last so that a (known) stale name/directions cache cannot mask a trial-level violation
        assert not stale_all, stale_all[0].split(": study-level cache stale: ")[0] + ": study-level cache stale: " + "; ".join(
            x.split(": study-level cache stale: ")[1] for x in stale_all)
        return True
    return body


def setup(concrete):
    grpc_direct.install_real_pb2()
    if not concrete:
        from stubs.shims import shim_frozen_trial
        shim_frozen_trial()


CODE = [_CachedStorage.create_new_trial, _CachedStorage.get_all_trials, _CachedStorage._read_trials_from_remote_storage,
        _CachedStorage._add_trials_to_cache, _CachedStorage.get_trial, _CachedStorage._get_cached_trial,
        _CachedStorage.get_trial_id_from_study_id_trial_number, _CachedStorage.get_study_name_from_id,
        _CachedStorage.get_study_directions, _CachedStorage.delete_study,
        gclient.GrpcClientCache.get_all_trials, gclient.GrpcClientCache._read_trials_from_remote_storage,
        gclient.GrpcClientCache._add_trial_to_cache, gclient.GrpcStorageProxy.get_all_trials, gclient.GrpcStorageProxy.delete_study,
        gclient.GrpcStorageProxy.get_trial, gservicer.OptunaStorageProxyService.GetTrials, gservicer._to_proto_trial,
        gservicer._from_proto_trial]


def classify(c):
    import re
    m = c["message"]
    m = re.sub(r"at [\w\.]+:\d+: ", "", m)
    if "study-level cache stale" in m:
        getters = sorted(set(re.findall(r"(get_study_\w+)\(", m)))
        deleted = "backend says KeyError" in m
        kind = c["message"].split(":")[2].strip().split("(")[0] if False else ("cached" if "cached" in m.split("study-level")[0] else "grpc")
        return f"{kind}:{'+'.join(getters)}:{'study-deleted-by-other-client' if deleted else 'differs'}"
    m = re.sub(r"\d+", "N", m)
    m = re.sub(r"(cached|grpc)N", r"\1", m)
    return m[:110]


# ------------------------------------------------------------------------------------------- fake vs real RDB
def conformance():
    """translation validation of stubs.fake_rdb against the real RDBStorage over SQLite: same op scripts, compare
    _get_trials(study, states, included, greater_than) for every (included subset, watermark)"""
    import itertools
    import os
    import tempfile
    import time
    from optuna.storages import RDBStorage
    t0 = time.time()
    d = tempfile.mkdtemp(prefix="c08conf")
    n = 0
    bad = []
    samples = []
    try:
        for script_id, script in enumerate(itertools.product(range(len(STATES)), repeat=3)):
            if script_id % 5 != 0:
                continue
            real = RDBStorage(f"sqlite:///{d}/db{script_id}.sqlite3")
            fake = FakeRDB()
            for S in (real, fake):
                s0 = S.create_new_study([StudyDirection.MINIMIZE], "a")
                s1 = S.create_new_study([StudyDirection.MINIMIZE], "b")
                S.create_new_trial(s1)
                for k, sti in enumerate(script):
                    st = STATES[sti]
                    S.create_new_trial(s0, None if st == TrialState.RUNNING else create_trial(state=st, values=[1.0] if st == TrialState.COMPLETE else None))
                S.create_new_trial(s1)
            rs0 = real.get_study_id_from_name("a")
            fs0 = fake.get_study_id_from_name("a")
            rids = [t._trial_id for t in real.get_all_trials(rs0)]
            fids = [t._trial_id for t in fake.get_all_trials(fs0)]
            for gt_i in range(-1, len(rids) + 1):
                for inc_mask in range(1 << len(rids)):
                    for flt in (None, (TrialState.COMPLETE,), (TrialState.RUNNING, TrialState.WAITING)):
                        def q(S, sid, ids, base):
                            gt = -1 if gt_i < 0 else (ids[gt_i] if gt_i < len(ids) else ids[-1] + 5)
                            inc = {ids[j] for j in range(len(ids)) if inc_mask >> j & 1}
                            return [(t.number, t.state) for t in S._get_trials(sid, flt, inc, gt)]
                        a = q(real, rs0, rids, 0)
                        b = q(fake, fs0, fids, 0)
                        n += 1
                        if a != b:
                            bad.append((script, gt_i, inc_mask, flt, a, b))
                        elif len(samples) < 2:
                            samples.append({"script": [STATES[i].name for i in script], "gt_index": gt_i, "included_mask": inc_mask, "result": [(x, y.name) for x, y in a]})
            real.remove_session()
            real.engine.dispose()
    finally:
        import shutil
        shutil.rmtree(d, ignore_errors=True)
    res = {"result": "ok" if not bad else "mismatch", "queries": 0, "programs": n, "disagreements": len(bad), "samples": samples,
           "wall_s": time.time() - t0}
    if bad:
        res["failed"] = True
        res["inconclusive"] = f"fake RDB backend disagrees with the real RDBStorage: {bad[0]}"
    return res


def obligations(tier):
    obs = []
    if tier == "quick":
        obs.append(Obligation("cached-2clients-k3", make_body(3, ["cached", "cached"], False), setup, CODE,
                              bounds=dict(clients="2 cached", studies=2, steps=3),
                              shard_depth=3, budget_s=500, classify=classify, require_reach=["read"],
                              describe="two _CachedStorage clients over one backend, 3 symbolic steps (client, op, trial, state), values z3 reals"))
        obs.append(Obligation("grpc+cached-k3", make_body(3, ["grpc", "cached"], False), setup, CODE,
                              bounds=dict(clients="1 proxied + 1 cached", studies=2, steps=3),
                              shard_depth=3, budget_s=500, classify=classify, require_reach=["read"],
                              describe="GrpcStorageProxy (client cache, real servicer, real protobuf messages) and a _CachedStorage client"))
        obs.append(Obligation("delete-k3", make_body(3, ["cached", "grpc"], True), setup, CODE,
                              bounds=dict(clients="1 cached + 1 proxied", studies=2, steps=3, delete_study=True),
                              shard_depth=3, budget_s=500, classify=classify, require_reach=["read"],
                              describe="same with delete_study in the alphabet"))
    for kinds, nm in ((["grpc", "cached"], "grpc+cached"), (["cached", "cached"], "cached-2clients")):
        fixed = [TrialState.RUNNING, TrialState.COMPLETE] if tier == "quick" else None
        obs.append(Obligation(f"{nm}-seed2-k2", make_body(2, kinds, False, seed_trials=2, seed_states=fixed), setup, CODE,
                              bounds=dict(clients=nm, studies=2, seed_trials="an older RUNNING and a younger COMPLETE trial, created by any client" if fixed else
                                          "2 (any client, RUNNING/COMPLETE/WAITING)", steps=2, first_filter="any"),
                              shard_depth=4, budget_s=600, classify=classify, require_reach=["read"],
                              describe="two pre-existing trials (e.g. an older unfinished and a younger finished one), then 2 symbolic steps; the final reads start with any state filter"))
    if tier != "quick":
        obs.append(Obligation("cached-2clients-k4", make_body(4, ["cached", "cached"], False, choice_reads="final"), setup, CODE,
                              bounds=dict(clients="2 cached", studies=2, steps=4),
                              shard_depth=4, budget_s=2400, classify=classify, require_reach=["read"],
                              describe="two _CachedStorage clients, 4 symbolic steps"))
        obs.append(Obligation("cached-seed-k3-full", make_body(3, ["cached", "cached"], False, seed_trials=1, full_alphabet=True, choice_reads="final"), setup, CODE,
                              bounds=dict(clients="2 cached", studies=2, seed_trials=1, steps=3, alphabet="full"),
                              shard_depth=4, budget_s=2400, classify=classify, require_reach=["read"],
                              describe="seeded trial (symbolic creator/state) + 3 steps over the full setter alphabet"))
        obs.append(Obligation("grpc+cached-k4", make_body(4, ["grpc", "cached"], False, choice_reads="final"), setup, CODE,
                              bounds=dict(clients="1 proxied + 1 cached", studies=2, steps=4),
                              shard_depth=4, budget_s=2400, classify=classify, require_reach=["read"],
                              describe="proxy client cache + cached client, 4 symbolic steps"))
        obs.append(Obligation("delete-k4", make_body(4, ["cached", "grpc"], True, choice_reads="final"), setup, CODE,
                              bounds=dict(clients="1 cached + 1 proxied", studies=2, steps=4, delete_study=True),
                              shard_depth=4, budget_s=2400, classify=classify, require_reach=["read"],
                              describe="delete_study in the alphabet, 4 steps"))
    obs.append(Obligation("fake-rdb-conformance", None, None, [], custom=conformance,
                          describe="stub validation: FakeRDB._get_trials == RDBStorage._get_trials on SQLite for all (watermark, included subset, filter) over 25 three-trial scripts"))
    return obs
