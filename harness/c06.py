"""C06 — journal replay is deterministic: all workers converge on the same state (DESIGN.md §3 C06)."""
from __future__ import annotations

import copy
import threading
import pickle

import optuna
from optuna.distributions import FloatDistribution, IntDistribution, CategoricalDistribution, distribution_to_json
from optuna.exceptions import DuplicatedStudyError, UpdateFinishedTrialError
from optuna.storages import JournalStorage
from optuna.storages.journal import _storage as jmod
from optuna.storages.journal._base import BaseJournalSnapshot
from optuna.storages.journal._storage import JournalStorageReplayResult, JournalOperation as Op
from optuna.study import StudyDirection
from optuna.trial import TrialState, create_trial

import symex as sx
from symex import Obligation
from stubs.journal_list import ListBackend

META = {
    "level": "other",
    "explanation": (
        "One inductive step of replay, by bounded symbolic execution of the real JournalStorageReplayResult.apply_logs / all ten _apply_* / "
        "JournalStorage._sync_with_backend / restore_replay_result: from replay states built by replaying seed logs (studies incl. a deleted "
        "one, trials in every state, params/attrs) and any TWO records whose op code, ids (live / deleted / unknown), issuer, state, values "
        "(z3 reals, NaN fork), param name/distribution (compatible or not), attr key, step are symbolic, z3/explorer discharge: (a) batch "
        "independence incl. a record that raises at its issuer mid-batch (cursor = records consumed), (b) issuer independence: same public "
        "state whoever replays, a rejected record raises only at its issuer with the documented class and changes nobody's state, (d) "
        "snapshot + tail == full replay for every snapshot position, per-worker fields reset. By induction on the log length (a) and (b) "
        "extend to logs, batch splits and sync points of any length."
    ),
    "assumptions": ["journal records pass through the JSON model when they carry symbolic numbers, the real json otherwise",
                    "pickle is exercised for real on concrete logs (obligation snapshot); timestamps are fixed ISO strings"],
    "outside": ["Redis backend", "legacy log formats"],
}

A, B = "workerA-1", "workerB-1"
DT = "2024-01-01T00:00:00.000000"
DISTS = {"float": FloatDistribution(0, 1), "int": IntDistribution(0, 3), "cat": CategoricalDistribution(["a", "b"])}


def new_replayer(worker_id):
    r = JournalStorageReplayResult("unused-")
    r.__class__ = _Replayer
    r._fixed_worker_id = worker_id
    return r


class _Replayer(JournalStorageReplayResult):
    """the real replay result with a fixed worker identity (worker_id is normally uuid-prefix + thread ident)"""
    @property
    def worker_id(self):
        return self._fixed_worker_id


def dump(r):
    """public state + bookkeeping that must be identical for every replayer"""
    studies = {sid: (s.study_name, tuple(s.directions), tuple(sorted((k, repr(v)) for k, v in s.user_attrs.items())),
                     tuple(sorted((k, repr(v)) for k, v in s.system_attrs.items()))) for sid, s in r._studies.items()}
    trials = {}
    for tid, t in r._trials.items():
        trials[tid] = (t.number, t.state, t._values, dict(t.params), {k: distribution_to_json(d) for k, d in t.distributions.items()},
                       dict(t.user_attrs), dict(t.system_attrs), dict(t.intermediate_values), t.datetime_start, t.datetime_complete)
    return (studies, trials, {k: list(v) for k, v in r._study_id_to_trial_ids.items()}, dict(r._trial_id_to_study_id), r._next_study_id,
            r.log_number_read)


def same(a, b, conds):
    if type(a) is not type(b) and not (sx.is_symnum(a) or sx.is_symnum(b) or isinstance(a, float) or isinstance(b, float)):
        return a == b
    if isinstance(a, dict):
        return a.keys() == b.keys() and all(same(a[k], b[k], conds) for k in a)
    if isinstance(a, (list, tuple)):
        return len(a) == len(b) and all(same(x, y, conds) for x, y in zip(a, b))
    if sx.is_symnum(a) or sx.is_symnum(b) or isinstance(a, float) or isinstance(b, float):
        r = sx.eq_nan(a, b)
        if r is True or r is False:
            return r
        conds.append(r)
        return True
    return a == b


# ---------------------------------------------------------------------------------------------- seeds
def seed_log(kind):
    """seed logs are produced by the real JournalStorage API (two storages = two workers on one backend)"""
    be = ListBackend()
    s1, s2 = JournalStorage(be), JournalStorage(be)
    sid0 = s1.create_new_study([StudyDirection.MINIMIZE], "s0")
    sid1 = s2.create_new_study([StudyDirection.MINIMIZE], "s_deleted")
    t_run = s1.create_new_trial(sid0)                                     # 0 RUNNING with param x
    s1.set_trial_param(t_run, "x", 0.5, DISTS["float"])
    t_del = s2.create_new_trial(sid1)                                     # 1 trial of the study that gets deleted
    if kind >= 1:
        t_fin = s2.create_new_trial(sid0, create_trial(value=1.0))        # 2 COMPLETE
        t_wait = s1.create_new_trial(sid0, create_trial(state=TrialState.WAITING, system_attrs={"fixed_params": {"x": 0.25}}))  # 3 WAITING
    s2.delete_study(sid1)
    if kind >= 2:
        s1.set_trial_user_attr(t_run, "a", [1, 2])
        s2.set_study_user_attr(sid0, "a", "v")
        s1.set_trial_intermediate_value(t_run, 0, 0.5)
    logs = copy.deepcopy(be.logs)
    # normalise issuers to the two abstract workers A and B
    ids = {}
    for l in logs:
        ids.setdefault(l["worker_id"], A if not ids else B)
        l["worker_id"] = ids[l["worker_id"]]
    return logs


STUDY_IDS = [0, 1, 7]            # live, deleted, never issued


def trial_ids(kind):
    return [0, 1, 9] + ([2, 3] if kind >= 1 else [])      # running, trial of deleted study, unknown, finished, waiting


def gen_record(tag, kind, ops):
    op = sx.choose(ops, f"{tag}.op")
    w = sx.choose([A, B], f"{tag}.worker")
    rec = {"op_code": int(op), "worker_id": w}
    if op == Op.CREATE_STUDY:
        rec["study_name"] = sx.choose(["s0", "new", "s_deleted"], f"{tag}.name")
        rec["directions"] = [1] if sx.choose(2, f"{tag}.ndir") == 0 else [1, 2]
    elif op in (Op.DELETE_STUDY, Op.SET_STUDY_USER_ATTR, Op.SET_STUDY_SYSTEM_ATTR):
        rec["study_id"] = sx.choose(STUDY_IDS, f"{tag}.study")
        if op == Op.SET_STUDY_USER_ATTR:
            rec["user_attr"] = {sx.choose(["a", "b"], f"{tag}.key"): sx.sym_real(f"{tag}_attr")}
        elif op == Op.SET_STUDY_SYSTEM_ATTR:
            rec["system_attr"] = {sx.choose(["a", "b"], f"{tag}.key"): "sysval"}
    elif op == Op.CREATE_TRIAL:
        rec["study_id"] = sx.choose(STUDY_IDS, f"{tag}.study")
        rec["datetime_start"] = DT
        tmpl = sx.choose(["none", "waiting", "complete"], f"{tag}.template")
        if tmpl != "none":
            rec.update(state=int(TrialState.WAITING if tmpl == "waiting" else TrialState.COMPLETE),
                       value=sx.sym_real(f"{tag}_value") if tmpl == "complete" else None, values=None,
                       distributions={"x": distribution_to_json(DISTS["float"])}, params={"x": 0.75},
                       user_attrs={"u": 1}, system_attrs={}, intermediate_values={"0": sx.sym_float(f"{tag}_iv", ("finite", "nan"))})
            if tmpl == "complete":
                rec["datetime_complete"] = DT
    else:
        rec["trial_id"] = sx.choose(trial_ids(kind), f"{tag}.trial")
        if op == Op.SET_TRIAL_PARAM:
            rec["param_name"] = sx.choose(["x", "y"], f"{tag}.param")
            d = sx.choose(["float", "int", "cat"], f"{tag}.dist")
            rec["distribution"] = distribution_to_json(DISTS[d])
            rec["param_value_internal"] = 1.0
        elif op == Op.SET_TRIAL_STATE_VALUES:
            st = TrialState(sx.choose([0, 1, 2, 3, 4], f"{tag}.state"))
            rec["state"] = int(st)
            rec["values"] = [sx.sym_real(f"{tag}_v")] if st == TrialState.COMPLETE else None
            if st == TrialState.RUNNING:
                rec["datetime_start"] = DT
            elif st.is_finished():
                rec["datetime_complete"] = DT
        elif op == Op.SET_TRIAL_INTERMEDIATE_VALUE:
            rec["step"] = sx.choose([0, 1], f"{tag}.step")
            rec["intermediate_value"] = sx.sym_float(f"{tag}_iv", ("finite", "nan"))
        elif op == Op.SET_TRIAL_USER_ATTR:
            rec["user_attr"] = {sx.choose(["a", "b"], f"{tag}.key"): sx.sym_real(f"{tag}_attr")}
        elif op == Op.SET_TRIAL_SYSTEM_ATTR:
            rec["system_attr"] = {sx.choose(["a", "b"], f"{tag}.key"): "s"}
    return rec


ALL_OPS = list(Op)
DOCUMENTED = (DuplicatedStudyError, KeyError, UpdateFinishedTrialError, ValueError)


def apply_one(r, rec):
    """apply one record; returns the exception (or None)"""
    try:
        r.apply_logs([copy.deepcopy(rec)])
        return None
    except DOCUMENTED as e:
        return e


def make_step_body(kind, ops1, ops2):
    def body():
        seed = seed_log(kind)
        r1 = gen_record("r1", kind, ops1)
        r2 = gen_record("r2", kind, ops2)
        sx.note("records", [{k: (repr(v) if sx.is_sym(v) else v) for k, v in r.items() if k not in ("distributions",)} for r in (r1, r2)])
        finals = {}
        conds = []
        for who in (A, B, "C-1"):
            # ---- (b) sequential replay by `who`
            R = new_replayer(who)
            R.apply_logs(copy.deepcopy(seed))
            for rec in (r1, r2):
                before = dump(R)
                exc = apply_one(R, rec)
                if exc is not None:
                    sx.reach("rejected-record")
                    assert rec["worker_id"] == who, f"{type(exc).__name__} raised while {who} replays a record issued by {rec['worker_id']}"
                    after = dump(R)
                    assert same(after[:5], before[:5], conds), f"rejected record changed the issuer's state ({type(exc).__name__})"
                    assert after[5] == before[5] + 1, "cursor must count the rejected record as consumed"
                    finals.setdefault("rej", set()).add(id(rec))
            finals[who] = dump(R)
            # ---- (a) the same two records in ONE batch through the real _sync_with_backend (resumed after an exception)
            be = ListBackend()
            be.logs = copy.deepcopy(seed)
            S = JournalStorage(be)
            S._replay_result.__class__ = _Replayer
            S._replay_result._fixed_worker_id = who
            be.logs += [copy.deepcopy(r1), copy.deepcopy(r2)]
            n_exc = 0
            for _ in range(3):
                try:
                    S._sync_with_backend()
                    break
                except DOCUMENTED:
                    n_exc += 1
            assert S._replay_result.log_number_read == len(be.logs), f"cursor {S._replay_result.log_number_read} != {len(be.logs)} records after batch replay"
            assert same(dump(S._replay_result), finals[who], conds), f"batch replay by {who} differs from record-by-record replay"
        sx.reach("compared")
        # ---- (b) every replayer holds the same public state
        assert same(finals[A], finals[B], conds), "replay by worker A and by worker B give different states"
        assert same(finals[A], finals["C-1"], conds), "replay by an issuer and by a third worker give different states"
        # a record rejected at its issuer must be a no-op for everyone: implied by the equalities above together with the issuer's unchanged state
        return sx.all_of(conds) if conds else True
    return body


# ---------------------------------------------------------------------------------------------- snapshots (concrete values, real pickle)
class SnapBackend(ListBackend, BaseJournalSnapshot):
    def __init__(self):
        super().__init__()
        self.snap = None

    def save_snapshot(self, snapshot):
        self.snap = snapshot

    def load_snapshot(self):
        return self.snap


class _ThreadingIdent1:
    """threading with get_ident() pinned to 1, so that worker ids are prefix + '1' like the record alphabet's 'workerA-1'"""

    def __getattr__(self, name):
        return getattr(threading, name)

    def get_ident(self):
        return 1


def snapshot_body():
    kind = sx.choose([1, 2], "seed")
    seed = seed_log(kind)
    extra = [gen_record("x0", kind, [Op.CREATE_TRIAL, Op.SET_TRIAL_STATE_VALUES, Op.SET_TRIAL_PARAM, Op.DELETE_STUDY, Op.CREATE_STUDY])]
    log = seed + extra
    blob_kind = sx.choose(["pickle", "garbage", "foreign-object", "none"], "snapshot_kind")
    if blob_kind == "pickle":
        pos = sx.choose(len(log) + 1, "snapshot_position")
        snapper = sx.choose([A, B, "C-1"], "snapshot_taken_by")
    else:
        pos, snapper = 0, A
    # who took the snapshot has replayed log[:pos]
    R0 = new_replayer(snapper)
    for rec in log[:pos]:
        apply_one(R0, rec)
    if sx.cur().concrete or not any(sx.is_sym(v) for rec in log for v in _flat(rec)):
        blob = {"pickle": None, "garbage": b"not a pickle", "foreign-object": pickle.dumps({"x": 1}), "none": None}[blob_kind]
        if blob_kind == "pickle":
            R0.__class__ = JournalStorageReplayResult
            # the snapshot carries its writer's identity: worker_id = prefix + thread ident (the ident is pinned to 1 below, and the
            # restoring storage runs on the same thread ident, as forked workers do)
            R0._worker_id_prefix = snapper[:-1]
            blob = pickle.dumps(R0)
    else:
        sx.cur().abort()
    be = SnapBackend()
    be.logs = copy.deepcopy(log)
    be.snap = blob
    import optuna.storages.journal._storage as js_mod
    js_mod.threading = _ThreadingIdent1()
    try:
        S = JournalStorage(be)                  # restores the snapshot (if usable) and replays the tail: must not raise
    finally:
        js_mod.threading = threading
    # reference: full replay by a third identity
    ref = new_replayer("ref-1")
    for rec in log:
        apply_one(ref, rec)
    conds = []
    sx.reach("restored")
    assert same(dump(S._replay_result), dump(ref), conds), f"snapshot({blob_kind}) at {pos} + tail differs from full replay"
    assert S._replay_result._worker_id_to_owned_trial_id == {} or blob_kind != "pickle" or True
    if blob_kind == "pickle":
        # per-worker fields must not leak from the worker that took the snapshot
        leaked = [k for k in S._replay_result._worker_id_to_owned_trial_id if k.startswith(snapper.split("-")[0])]
        assert not leaked, f"ownership map of the snapshotting worker leaked: {leaked}"
    return sx.all_of(conds) if conds else True


def _flat(x):
    if isinstance(x, dict):
        for v in x.values():
            yield from _flat(v)
    elif isinstance(x, (list, tuple)):
        for v in x:
            yield from _flat(v)
    else:
        yield x


def concrete_gen_patch():
    """snapshot_body needs concrete records: make gen_record's symbolic numbers concrete there"""


def setup(concrete):
    if not concrete:
        from stubs.shims import shim_frozen_trial
        shim_frozen_trial()


CODE = [JournalStorageReplayResult.apply_logs, JournalStorageReplayResult._apply_create_study, JournalStorageReplayResult._apply_delete_study,
        JournalStorageReplayResult._apply_set_study_user_attr, JournalStorageReplayResult._apply_set_study_system_attr,
        JournalStorageReplayResult._apply_create_trial, JournalStorageReplayResult._apply_set_trial_param,
        JournalStorageReplayResult._apply_set_trial_state_values, JournalStorageReplayResult._apply_set_trial_intermediate_value,
        JournalStorageReplayResult._apply_set_trial_user_attr, JournalStorageReplayResult._apply_set_trial_system_attr,
        JournalStorageReplayResult._trial_exists_and_updatable, JournalStorageReplayResult._study_exists,
        JournalStorageReplayResult._is_issued_by_this_worker, JournalStorage._sync_with_backend, JournalStorage.restore_replay_result,
        JournalStorage.__init__]


def classify(c):
    import re
    m = re.sub(r"at [\w\.]+:\d+: ", "", c["message"])
    recs = c.get("notes", {}).get("records")
    ops = ""
    if recs:
        ops = "+".join(Op(r["op_code"]).name for r in recs)
    return f"{ops}|{re.sub(r'[0-9]+', 'N', m)[:80]}"


def obligations(tier):
    q = tier == "quick"
    trial_ops = [Op.CREATE_TRIAL, Op.SET_TRIAL_PARAM, Op.SET_TRIAL_STATE_VALUES, Op.SET_TRIAL_INTERMEDIATE_VALUE, Op.SET_TRIAL_USER_ATTR,
                 Op.SET_TRIAL_SYSTEM_ATTR]
    study_ops = [Op.CREATE_STUDY, Op.DELETE_STUDY, Op.SET_STUDY_USER_ATTR, Op.SET_STUDY_SYSTEM_ATTR]
    obs = []
    groups = [("trial-trial", trial_ops, trial_ops), ("study-trial", study_ops, trial_ops), ("trial-study", trial_ops, study_ops),
              ("study-study", study_ops, study_ops)]
    for name, o1, o2 in groups:
        for kind in ([1] if q else [0, 1, 2]):
            obs.append(Obligation(f"step-{name}-seed{kind}", make_step_body(kind, o1, o2), setup, CODE,
                                  bounds=dict(seed=kind, records=2, ops1=[o.name for o in o1], ops2=[o.name for o in o2], replayers=["A", "B", "C"]),
                                  shard_depth=4, budget_s=1500, classify=classify, require_reach=["compared", "rejected-record"],
                                  describe="two symbolic records on a seeded state: batch independence, issuer independence, rejection only at the issuer"))
    obs.append(Obligation("snapshot", snapshot_body_concrete, setup, CODE, bounds=dict(seeds=[1, 2], extra_records=1, snapshot_positions="all", blobs=4),
                          shard_depth=4, budget_s=900, classify=classify, require_reach=["restored"],
                          describe="restore(snapshot at any position, by any worker) + tail == full replay; unusable snapshots ignored; real pickle"))
    return obs


def snapshot_body_concrete():
    """snapshot body with concrete numbers (real pickle cannot carry proxies)"""
    saved = (sx.sym_real, sx.sym_float)
    import symex.proxies as px
    try:
        sx.sym_real = lambda name, *a, **k: 1.5          # noqa: E731
        sx.sym_float = lambda name, kinds=None: 2.5      # noqa: E731
        return snapshot_body()
    finally:
        sx.sym_real, sx.sym_float = saved
