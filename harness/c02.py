"""C02 — every trial run by optimize/ask/tell ends in a well-formed terminal state (DESIGN.md §3 C02)."""
from __future__ import annotations

import builtins
import math
from collections.abc import Sequence

import numpy as np

import optuna
from optuna.study import _optimize, _tell
from optuna.trial import TrialState, _trial as trial_mod
from optuna.storages import InMemoryStorage
from optuna.study import Study

import symex as sx
from symex import Obligation

META = {
    "level": "other",
    "explanation": (
        "Bounded symbolic execution (own z3-backed executor, DESIGN.md §1.2 E1) of the real Study.optimize / "
        "_optimize_sequential / _run_trial / _tell_with_warning / Study.tell on InMemoryStorage. The objective is a "
        "harness closure whose behaviour (reports, prune request, result shape from a type lattice, exception kind) is "
        "chosen by explorer forks; numeric contents of results and reports are z3 reals (finite) or forked NaN/inf. "
        "After optimize returns or raises, the statement of C02 is asserted; every path's assertion is discharged by z3 "
        "under the path condition. Counterexamples are replayed with ordinary Python values before being reported."
    ),
    "assumptions": [
        "float()/math.isnan in optuna.study._tell and float() in optuna.trial._trial are rebound to shims that are the "
        "identity on symbolic finite reals and the real builtins otherwise",
        "storage is InMemoryStorage; other backends are tied to it by C01",
        "sampler is RandomSampler wrapped by a stub whose after_trial may raise under a symbolic flag; pruner is a stub "
        "with a symbolic decision",
        "objects with a __float__ that raises something other than ValueError/TypeError/OverflowError are outside the lattice",
    ],
    "outside": ["n_jobs>1 (thread pool)", "timeouts", "heartbeat thread", "samplers whose before_trial raises before the "
                "objective is entered (trial is left RUNNING; reported as an observation in DESIGN.md)"],
}


class Boom(Exception):
    pass


class Caught(Exception):
    pass


class WithFloat:
    def __init__(self, v):
        self.v = v

    def __float__(self):
        return float(self.v)

    def __repr__(self):
        return f"WithFloat({self.v})"


SHAPES = ["none", "float", "nan", "inf", "int", "bigint", "bool", "str_num", "str_bad", "str_empty", "bytes_num",
          "list1", "list2", "list3", "list_str", "list_nan", "list_none", "tuple1", "tuple2", "empty", "dict",
          "nested", "withfloat", "npfloat", "ndarray1", "list_bigint"]
XSHAPES = SHAPES + ["list2x", "list3x"]      # lists whose elements range over finite/+inf/-inf/NaN independently


def build(shape, tag):
    v = lambda k: sx.sym_real(f"{tag}_v{k}")  # noqa: E731
    fl = lambda k: sx.sym_float(f"{tag}_v{k}", ("finite", "inf", "-inf", "nan"))  # noqa: E731
    if shape == "none":
        return None
    if shape == "float":
        return v(0)
    if shape == "nan":
        return float("nan")
    if shape == "inf":
        return float("-inf")
    if shape == "int":
        return 3
    if shape == "bigint":
        return 10 ** 400
    if shape == "bool":
        return True
    if shape == "str_num":
        return "5"
    if shape == "str_bad":
        return "a"
    if shape == "str_empty":
        return ""
    if shape == "bytes_num":
        return b"5"
    if shape == "list1":
        return [v(0)]
    if shape == "list2":
        return [v(0), v(1)]
    if shape == "list3":
        return [v(0), 1.0, v(2)]
    if shape == "list2x":
        return [fl(0), fl(1)]
    if shape == "list3x":
        return (fl(0), 1.0, fl(2))
    if shape == "list_str":
        return ["5", v(1)]
    if shape == "list_nan":
        return [v(0), float("nan")]
    if shape == "list_none":
        return [None]
    if shape == "tuple1":
        return (v(0),)
    if shape == "tuple2":
        return (v(0), 2)
    if shape == "empty":
        return []
    if shape == "dict":
        return {}
    if shape == "nested":
        return [[1.0]]
    if shape == "withfloat":
        return WithFloat(2.5)
    if shape == "npfloat":
        return np.float64(1.5)
    if shape == "ndarray1":
        return np.array([1.5])
    if shape == "list_bigint":
        return [10 ** 400]
    raise KeyError(shape)


def _as_float(e):
    """oracle: (convertible, value)"""
    if sx.is_symnum(e):
        return True, e
    try:
        return True, builtins.float(e)
    except Exception:  # noqa
        return False, None


def oracle_complete(R, n_obj):
    """the statement: COMPLETE exactly when the value(s) are float-convertible, NaN-free and one per objective"""
    if R is None:
        return False, None
    elems = list(R) if isinstance(R, Sequence) else [R]
    vals = []
    for e in elems:
        ok, f = _as_float(e)
        if not ok:
            return False, None
        if not sx.is_symnum(f) and math.isnan(f):
            return False, None
        vals.append(f)
    # (element-wise rule of the statement: NaN-free, float-convertible, one per objective - nothing about sums)
    if len(vals) != n_obj:
        return False, None
    return True, vals


class StubSampler(optuna.samplers.RandomSampler):
    def __init__(self):
        super().__init__(seed=0)
        self.raise_after = set()

    def after_trial(self, study, trial, state, values):
        if trial.number in self.raise_after:
            raise Boom("after_trial")


class StubPruner(optuna.pruners.BasePruner):
    def __init__(self):
        self.decisions = {}

    def prune(self, study, trial):
        return self.decisions.get(trial.number, False)


def setup(concrete):
    if not concrete:
        _tell.float = sx.float_shim
        _tell.math = sx.mathshim
        trial_mod.float = sx.float_shim


def _vals_equal(stored, expect):
    if stored is None or expect is None:
        return stored is None and expect is None
    if len(stored) != len(expect):
        return False
    return sx.all_of([sx.eq_nan(a, b) for a, b in zip(stored, expect)])


def make_optimize_body(n_trials_opts, n_obj_opts, shapes, max_reports, with_sampler_fault, with_stop):
    OUTCOMES = ["ret:" + s for s in shapes] + ["pruned", "caught", "uncaught", "kbd"]

    def body():
        n_obj = sx.choose(n_obj_opts, "n_obj")
        n_trials = sx.choose(n_trials_opts, "n_trials")
        sampler = StubSampler()
        pruner = StubPruner()
        study = optuna.create_study(directions=["minimize"] * n_obj, sampler=sampler, pruner=pruner,
                                    storage=InMemoryStorage())
        plans = []
        for i in range(n_trials):
            p = {}
            p["n_reports"] = sx.choose(max_reports + 1, f"t{i}.n_reports") if n_obj == 1 else 0
            p["reports"] = [sx.sym_float(f"t{i}_r{k}", ("finite", "nan", "inf")) for k in range(p["n_reports"])]
            p["ask_prune"] = bool(sx.choose(2, f"t{i}.should_prune")) if p["n_reports"] else False
            p["outcome"] = sx.choose(OUTCOMES, f"t{i}.outcome")
            p["R"] = build(p["outcome"][4:], f"t{i}") if p["outcome"].startswith("ret:") else None
            p["after_raises"] = bool(sx.choose(2, f"t{i}.after_trial_raises")) if with_sampler_fault else False
            if p["after_raises"]:
                sampler.raise_after.add(i)
            if p["ask_prune"]:
                pruner.decisions[i] = True
            plans.append(p)
        stop_after = sx.choose(n_trials + 1, "stop_after") if with_stop else n_trials   # callback calls study.stop() after trial k
        sx.note("plans", [{k: (repr(v) if k in ("R", "reports") else v) for k, v in p.items()} for p in plans])
        cb_calls = []

        def objective(trial):
            p = plans[trial.number]
            for k, rv_ in enumerate(p["reports"]):
                trial.report(rv_, k)
                if p["ask_prune"] and trial.should_prune():
                    raise optuna.TrialPruned()
            o = p["outcome"]
            if o == "pruned":
                raise optuna.TrialPruned()
            if o == "caught":
                raise Caught("caught")
            if o == "uncaught":
                raise Boom("objective")
            if o == "kbd":
                raise KeyboardInterrupt()
            return p["R"]

        def cb(study_, ft):
            cb_calls.append(ft.number)
            if ft.number + 1 == stop_after:
                study_.stop()

        raised = None
        try:
            study.optimize(objective, n_trials=n_trials, catch=(Caught,), callbacks=[cb])
        except (Exception, KeyboardInterrupt) as e:
            if isinstance(e, sx.HarnessError):
                raise
            raised = e
        trials = study.get_trials(deepcopy=False)

        # ---- oracle: walk the plan the way the statement prescribes
        exp_raise = None
        exp_n = 0
        exp_cb = []
        for i, p in enumerate(plans):
            exp_n += 1
            assert len(trials) > i, f"trial {i} missing"
            t = trials[i]
            assert t.state != TrialState.RUNNING, f"trial {i} left RUNNING (raised={type(raised).__name__})"
            assert t.state.is_finished(), f"trial {i} in state {t.state}"
            o = p["outcome"]
            pruned_by_request = p["ask_prune"] and p["n_reports"] > 0
            propagates = None
            if pruned_by_request or o == "pruned":
                sx.reach("pruned")
                assert t.state == TrialState.PRUNED, f"trial {i}: expected PRUNED got {t.state}"
                reps = p["reports"][:1] if pruned_by_request else p["reports"]
                if reps:
                    last = reps[-1]
                    last_nan = isinstance(last, float) and math.isnan(last)
                    exp_vals = None if last_nan else [last]
                else:
                    exp_vals = None
                assert _vals_equal(t.values, exp_vals), f"trial {i}: pruned values {t.values} vs {exp_vals}"
            elif o in ("caught", "uncaught", "kbd"):
                sx.reach("exception")
                assert t.state == TrialState.FAIL, f"trial {i}: expected FAIL got {t.state}"
                assert t.values is None, f"trial {i}: FAIL trial carries values"
                if o != "caught":
                    propagates = KeyboardInterrupt if o == "kbd" else Boom
            else:
                ok, vals = oracle_complete(p["R"], n_obj)
                if ok:
                    sx.reach("complete")
                    assert t.state == TrialState.COMPLETE, f"trial {i}: expected COMPLETE got {t.state} for {o}"
                    assert t.values is not None and _vals_equal(t.values, vals), f"trial {i}: values {t.values} vs {vals}"
                    assert all(sx.is_symnum(x) or type(x) is float for x in t.values), f"trial {i}: stored values not floats"
                else:
                    sx.reach("infeasible")
                    assert t.state == TrialState.FAIL, f"trial {i}: expected FAIL got {t.state} for {o}"
                    assert t.values is None, f"trial {i}: FAIL trial carries values"
            if p["after_raises"]:
                propagates = (Boom, AssertionError)   # the sampler's exception (or the assert that replaces it) ends the loop
            if propagates is not None:
                exp_raise = propagates
                break
            exp_cb.append(i)
            if i + 1 == stop_after:
                break
        assert len(trials) == exp_n, f"{len(trials)} trials exist, expected {exp_n}"
        if exp_raise is None:
            assert raised is None, f"optimize raised {type(raised).__name__}: {raised}"
        else:
            assert raised is not None and isinstance(raised, exp_raise), f"expected {exp_raise} to propagate, got {raised!r}"
        assert cb_calls == exp_cb, f"callbacks ran for {cb_calls}, expected {exp_cb}"
        return True
    return body


# ------------------------------------------------------------------------------------------------ optimize called twice
def optimize_twice_body():
    """a second optimize() on the same study runs exactly n_trials trials whatever ended the first call (stop(), exception,
    plain return), for n_jobs in {1, 2}; objectives here are concrete so that worker threads never fork the explorer"""
    first_end = sx.choose(["n_trials", "stop-from-callback", "stop-from-objective", "exception"], "first_end")
    first_jobs = sx.choose([1, 2], "first_n_jobs")
    second_jobs = sx.choose([1, 2], "second_n_jobs")
    n2 = sx.choose([1, 2, 3], "second_n_trials")
    outcome2 = sx.choose(["complete", "pruned", "caught"], "second_outcome")
    study = optuna.create_study(storage=InMemoryStorage(), sampler=optuna.samplers.RandomSampler(seed=0))

    def obj1(trial):
        if first_end == "stop-from-objective":
            trial.study.stop()
        if first_end == "exception":
            raise Boom("first")
        return 1.0

    import threading
    lock = threading.Lock()
    calls_a, calls_b = [], []

    def cb1(st, ft):
        with lock:
            calls_a.append(ft.number)
        if first_end == "stop-from-callback":
            st.stop()

    def cb1b(st, ft):
        with lock:
            calls_b.append(ft.number)
    try:
        study.optimize(obj1, n_trials=2, n_jobs=first_jobs, callbacks=[cb1, cb1b])
    except Boom:
        pass
    first = study.get_trials(deepcopy=False)
    n_before = len(first)
    # every callback runs exactly once for every trial whose exception did not propagate, also when stop() was requested from the
    # objective or from an earlier callback of the same trial
    exp_first = [t.number for t in first if t.state == TrialState.COMPLETE]
    assert sorted(calls_a) == exp_first, f"first call ended by {first_end}: first callback ran for {sorted(calls_a)}, trials that finished normally: {exp_first}"
    assert sorted(calls_b) == exp_first, f"first call ended by {first_end}: second callback ran for {sorted(calls_b)}, trials that finished normally: {exp_first}"
    calls = []

    def obj2(trial):
        if outcome2 == "pruned":
            raise optuna.TrialPruned()
        if outcome2 == "caught":
            raise Caught("x")
        return 2.0

    def cb2(st, ft):
        with lock:
            calls.append(ft.number)
    sx.note("plans", [dict(outcome=f"second-call after {first_end}", first_jobs=first_jobs, second_jobs=second_jobs, n_trials=n2)])
    study.optimize(obj2, n_trials=n2, n_jobs=second_jobs, catch=(Caught,), callbacks=[cb2])
    trials = study.get_trials(deepcopy=False)
    sx.reach("second-call")
    assert len(trials) - n_before == n2, f"second optimize(n_trials={n2}, n_jobs={second_jobs}) ran {len(trials) - n_before} trials after the first call ended by {first_end}"
    assert all(t.state.is_finished() for t in trials), "a trial is left unfinished"
    assert sorted(calls) == list(range(n_before, n_before + n2)), f"callbacks ran for {sorted(calls)}"
    exp = {"complete": TrialState.COMPLETE, "pruned": TrialState.PRUNED, "caught": TrialState.FAIL}[outcome2]
    assert all(t.state == exp for t in trials[n_before:])
    return True


# ------------------------------------------------------------------------------------------------ tell obligations
TELL_VALUES = ["none", "float", "nan", "list1", "list2x", "list3x", "str_num", "str_bad", "empty", "bigint"]
TELL_STATES = [None, TrialState.COMPLETE, TrialState.PRUNED, TrialState.FAIL, TrialState.RUNNING, TrialState.WAITING]


def tell_body():
    n_obj = sx.choose([1, 2, 3], "n_obj")
    study = optuna.create_study(directions=["minimize"] * n_obj, storage=InMemoryStorage())
    pre_state = sx.choose(["RUNNING", "COMPLETE", "PRUNED", "FAIL", "WAITING"], "pre_state")
    by_number = bool(sx.choose(2, "by_number"))
    if pre_state == "WAITING":
        study.enqueue_trial({})
        trial = None
        by_number = True
    else:
        trial = study.ask()
        has_report = n_obj == 1 and bool(sx.choose(2, "has_report"))
        if has_report:
            trial.report(sx.sym_float("rep", ("finite", "nan")), 0)
        if pre_state == "COMPLETE":
            study.tell(trial, [sx.sym_real(f"pre{k}") for k in range(n_obj)])
        elif pre_state == "PRUNED":
            study.tell(trial, state=TrialState.PRUNED)
        elif pre_state == "FAIL":
            study.tell(trial, state=TrialState.FAIL)
    before = study.get_trials(deepcopy=False)[0]
    snap = (before.state, None if before.values is None else list(before.values), dict(before.intermediate_values),
            before.datetime_complete)
    vshape = sx.choose(TELL_VALUES, "values")
    st = TELL_STATES[sx.choose(len(TELL_STATES), "state")]
    skip = bool(sx.choose(2, "skip_if_finished"))
    values = build(vshape, "tell")
    sx.note("call", dict(pre_state=pre_state, by_number=by_number, values=repr(values), state=str(st), skip=skip))
    raised = None
    ret = None
    try:
        ret = study.tell(0 if by_number else trial, values, state=st, skip_if_finished=skip)
    except Exception as e:  # noqa
        if isinstance(e, sx.HarnessError):
            raise
        raised = e
    after = study.get_trials(deepcopy=False)[0]
    finished_before = snap[0].is_finished()
    if finished_before:
        sx.reach("tell_on_finished")
        assert after.state == snap[0], f"tell altered the state of a finished trial: {snap[0]} -> {after.state}"
        assert _vals_equal(after.values, snap[1]), f"tell altered the values of a finished trial: {snap[1]} -> {after.values}"
        assert after.datetime_complete == snap[3], "tell altered datetime_complete of a finished trial"
        if skip:
            assert raised is None, f"tell(skip_if_finished=True) raised {raised!r}"
            assert ret.state == snap[0] and _vals_equal(ret.values, snap[1])
        else:
            assert isinstance(raised, ValueError), f"tell on a finished trial raised {raised!r}, expected ValueError"
        return True
    if snap[0] == TrialState.WAITING:
        assert isinstance(raised, ValueError) and after.state == TrialState.WAITING, f"tell on WAITING: {raised!r} {after.state}"
        return True
    # RUNNING trial
    sx.reach("tell_on_running")
    assert after.state != TrialState.WAITING
    if raised is not None:
        # argument errors must leave the trial untouched (still RUNNING, no values)
        assert isinstance(raised, (ValueError, TypeError)), f"tell raised {raised!r}"
        assert after.state == TrialState.RUNNING and after.values is None, f"tell raised {raised!r} but trial is {after.state}"
        ok_c, _ = oracle_complete(values, n_obj)
        legit = (st in (TrialState.RUNNING, TrialState.WAITING)
                 or (st == TrialState.COMPLETE and not ok_c)
                 or (st in (TrialState.PRUNED, TrialState.FAIL) and values is not None))
        assert legit, f"tell raised {raised!r} for a valid call"
        return True
    ok_c, vals = oracle_complete(values, n_obj)
    if st == TrialState.COMPLETE or (st is None and ok_c):
        assert ok_c and after.state == TrialState.COMPLETE and _vals_equal(after.values, vals), \
            f"expected COMPLETE {vals}, got {after.state} {after.values}"
    elif st is None:
        assert after.state == TrialState.FAIL and after.values is None, f"expected FAIL, got {after.state} {after.values}"
    elif st == TrialState.FAIL:
        assert after.state == TrialState.FAIL and after.values is None
    elif st == TrialState.PRUNED:
        assert after.state == TrialState.PRUNED
        ivs = snap[2]
        if ivs:
            last = ivs[max(ivs)]
            exp = None if (isinstance(last, float) and math.isnan(last)) else [last]
        else:
            exp = None
        assert _vals_equal(after.values, exp), f"pruned values {after.values} vs {exp}"
    else:
        assert False, f"tell accepted state {st}"
    return True


CODE = [_tell._tell_with_warning, _tell._check_values_are_feasible, _tell._check_state_and_values, _tell._get_frozen_trial,
        _optimize._run_trial, _optimize._optimize_sequential, _optimize._optimize, Study.optimize, Study.ask, Study.tell,
        Study.stop, trial_mod.Trial.report, trial_mod.Trial.should_prune, InMemoryStorage.set_trial_state_values,
        InMemoryStorage.set_trial_intermediate_value]


def classify(c):
    """finding class = (outcome kind that fails, what went wrong) without numbers"""
    import re
    msg = re.sub(r"trial \d+", "trial N", c["message"])
    msg = re.sub(r"at [\w\.]+:\d+: ", "", msg)
    plans = c["notes"].get("plans")
    culprit = ""
    if plans:
        m = re.search(r"trial (\d+)", c["message"])
        if m and int(m.group(1)) < len(plans):
            culprit = plans[int(m.group(1))]["outcome"]
    return f"{culprit}|{msg[:120]}"


def obligations(tier):
    obs = []
    if tier == "quick":
        obs.append(Obligation(
            "optimize-1trial", make_optimize_body([1], [1, 2, 3], XSHAPES, 2, True, True), setup, CODE,
            bounds=dict(n_trials=1, n_objectives=[1, 2, 3], result_shapes=len(XSHAPES), reports="0..2", sampler_fault=True, stop=True),
            shard_depth=4, budget_s=400, classify=classify, require_reach=["complete", "infeasible", "pruned", "exception"],
            describe="one trial through the real optimize loop; result shape, exception kind, reports, prune request, "
                     "after_trial fault, stop() all symbolic"))
        obs.append(Obligation(
            "optimize-2trials", make_optimize_body([2], [1, 2], SHAPES, 1, False, True), setup, CODE,
            bounds=dict(n_trials=2, n_objectives=[1, 2], result_shapes=len(SHAPES), reports="0..1", sampler_fault=False, stop=True),
            shard_depth=5, budget_s=500, classify=classify, require_reach=["complete", "infeasible", "pruned", "exception"],
            describe="two trials: loop continuation, catch, propagation, callbacks once per trial, exact trial count"))
    else:
        obs.append(Obligation(
            "optimize-2trials-faults", make_optimize_body([1, 2], [1, 2, 3], SHAPES, 1, True, True), setup, CODE,
            bounds=dict(n_trials=[1, 2], n_objectives=[1, 2, 3], result_shapes=len(SHAPES), reports="0..1", sampler_fault=True, stop=True),
            shard_depth=6, budget_s=2400, classify=classify, require_reach=["complete", "infeasible", "pruned", "exception"],
            describe="one or two trials, every behaviour symbolic incl. sampler after_trial faults"))
        red = ["none", "float", "nan", "str_num", "list2", "bigint", "empty"]
        obs.append(Obligation(
            "optimize-3trials", make_optimize_body([3], [1, 2], red, 1, False, True), setup, CODE,
            bounds=dict(n_trials=3, n_objectives=[1, 2], result_shapes=red, reports="0..1", stop=True),
            shard_depth=6, budget_s=1500, classify=classify, require_reach=["complete", "infeasible", "pruned", "exception"],
            describe="three trials over a reduced shape lattice"))
    obs.append(Obligation(
        "optimize-twice", optimize_twice_body, setup, CODE,
        bounds=dict(first_end=4, n_jobs=[1, 2], second_n_trials=[1, 2, 3]), budget_s=300, classify=classify, require_reach=["second-call"],
        describe="second optimize() after stop()/exception runs exactly n_trials trials, n_jobs in {1,2} (concrete objectives in worker threads)"))
    obs.append(Obligation(
        "tell", tell_body, setup, CODE,
        bounds=dict(pre_states=5, values=TELL_VALUES, states=[str(s) for s in TELL_STATES], skip_if_finished=[True, False], n_objectives=[1, 2]),
        shard_depth=3, budget_s=300, classify=lambda c: "tell|" + c["message"][:100],
        require_reach=["tell_on_finished", "tell_on_running"],
        describe="Study.tell with every (trial state, values shape, state, skip_if_finished) combination; finished trials unchanged"))
    return obs
