"""Decimal shim for optuna.distributions (DESIGN.md §3 C11, 'Float with step').

The constructor of stepped FloatDistribution goes through decimal.Decimal(str(x)), i.e. the shortest-repr digit string of a double,
which cannot be encoded. The claim is restricted to inputs that are decimal numerals with <= SCALE_DIGITS fractional digits (what
users type): for these str(float(n/10^d)) is the numeral, so the Decimal arithmetic is exact integer arithmetic in units of
10^-SCALE_DIGITS. `SymDec` is such a number with a symbolic integer numerator; `str(SymDec)` is a token that `Decimal(...)` accepts."""
from __future__ import annotations

import builtins
import decimal as _decimal
import fractions

import z3

import symex as sx
from symex.proxies import SymInt, SymBool

SCALE_DIGITS = 6
SCALE = 10 ** SCALE_DIGITS


def _n(x):
    """numerator (SymInt or int) of x in units of 10^-SCALE_DIGITS"""
    if isinstance(x, (SymDec, Dec)):
        return x.n
    if isinstance(x, bool):
        raise TypeError
    if isinstance(x, int):
        return x * SCALE
    if isinstance(x, float):
        fr = fractions.Fraction(_decimal.Decimal(repr(x))) * SCALE
        if fr.denominator != 1:
            raise sx.HarnessError(f"{x!r} has more than {SCALE_DIGITS} fractional digits")
        return int(fr)
    if isinstance(x, _decimal.Decimal):
        fr = fractions.Fraction(x) * SCALE
        assert fr.denominator == 1
        return int(fr)
    raise TypeError(type(x))


class _Num:
    __slots__ = ("n",)

    def __init__(self, n):
        self.n = n

    def _mk(self, n):
        return type(self)(n)

    def __add__(self, o):
        return self._mk(self.n + _n(o))

    __radd__ = __add__

    def __sub__(self, o):
        return self._mk(self.n - _n(o))

    def __rsub__(self, o):
        return self._mk(_n(o) - self.n)

    def __neg__(self):
        return self._mk(-self.n)

    def _cmp(op):
        def f(self, o):
            try:
                b = _n(o)
            except TypeError:
                return NotImplemented
            r = getattr(self.n, op)(b)
            if r is NotImplemented:
                r = getattr(b, {"__lt__": "__gt__", "__le__": "__ge__", "__gt__": "__lt__", "__ge__": "__le__", "__eq__": "__eq__", "__ne__": "__ne__"}[op])(self.n)
            return r
        return f
    __lt__ = _cmp("__lt__")
    __le__ = _cmp("__le__")
    __gt__ = _cmp("__gt__")
    __ge__ = _cmp("__ge__")
    __eq__ = _cmp("__eq__")
    __ne__ = _cmp("__ne__")

    def __hash__(self):
        return id(self)

    def __deepcopy__(self, memo):
        return self

    def __copy__(self):
        return self


class SymDec(_Num):
    """a double that is a short decimal numeral: value = n / 10^SCALE_DIGITS"""

    def __repr__(self):
        return f"SymDec({self.n})"

    def __str__(self):
        return "SymDecToken"


class Dec(_Num):
    """what decimal.Decimal(str(x)) returns under the short-decimal assumption"""

    def __floordiv__(self, o):
        b = _n(o)
        assert isinstance(b, int) and b > 0, "step must be concrete and positive in this encoding"
        return _IntQuot(self.n // b)

    def __mod__(self, o):
        b = _n(o)
        assert isinstance(b, int) and b > 0
        return Dec(self.n % b)

    def __float__(self):
        raise sx.HarnessError("float(Dec) needs the shimmed float")


class _IntQuot:
    """integer quotient of a floor division, to be multiplied by the step again"""

    def __init__(self, q):
        self.q = q

    def __mul__(self, o):
        b = _n(o)
        return Dec(self.q * b)


class _StrToken(str):
    pass


def str_shim(x=""):
    if isinstance(x, (SymDec,)):
        t = _StrToken("SymDecToken")
        t.val = x
        return t
    return builtins.str(x)


class DecimalModule:
    """stands in for the `decimal` module inside optuna.distributions"""

    def __getattr__(self, n):
        return getattr(_decimal, n)

    @staticmethod
    def Decimal(x="0"):
        if isinstance(x, _StrToken):
            return Dec(x.val.n)
        if isinstance(x, (SymDec, Dec)):
            return Dec(x.n)
        d = _decimal.Decimal(x)
        return Dec(_n(d))


def float_shim(x=0.0):
    if isinstance(x, SymDec):
        return x
    if isinstance(x, Dec):
        return SymDec(x.n)
    return sx.float_shim(x)


class _FloatMeta(type):
    def __instancecheck__(cls, obj):
        return builtins.isinstance(obj, (builtins.float, SymDec)) or sx.is_symnum(obj)

    def __call__(cls, x=0.0):
        return float_shim(x)


class FloatType(metaclass=_FloatMeta):
    pass
