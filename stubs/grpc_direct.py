"""GrpcStorageProxy wired straight into OptunaStorageProxyService (no network), DESIGN.md §1.3.

`proxy_over(backend)` uses the real generated api_pb2 messages (values must be ordinary Python values).
`install_fake_pb2()` rebinds `api_pb2` in client/servicer to plain-Python message classes generated at run time from the
real `api_pb2.DESCRIPTOR` so that proxy values can flow through the real client/servicer glue."""
from __future__ import annotations

import types

import grpc
from google.protobuf.descriptor import FieldDescriptor as FD

from optuna.storages._grpc import client as gc, servicer as gs
from optuna.storages._grpc.auto_generated import api_pb2 as real_pb2


class Abort(grpc.RpcError):
    def __init__(self, code, details):
        self._c = code
        self._d = details

    def code(self):
        return self._c

    def details(self):
        return self._d


class Ctx:
    def abort(self, code, details):
        raise Abort(code, details)


class DirectStub:
    def __init__(self, service):
        self._s = service

    def __getattr__(self, n):
        m = getattr(self._s, n)
        return lambda req: m(req, Ctx())


def proxy_over(backend):
    p = gc.GrpcStorageProxy.__new__(gc.GrpcStorageProxy)
    p._stub = DirectStub(gs.OptunaStorageProxyService(backend))
    p._cache = gc.GrpcClientCache(p._stub)
    p._host = "direct"
    p._port = 0
    return p


class FakeRepeated:
    """like RepeatedScalarContainer: sequence-like, falsy when empty, NOT a list (json cannot serialise it)"""

    def __init__(self, xs=()):
        self._x = list(xs)

    def __iter__(self):
        return iter(self._x)

    def __len__(self):
        return len(self._x)

    def __getitem__(self, i):
        return self._x[i]

    def __bool__(self):
        return bool(self._x)

    def __eq__(self, o):
        return list(self) == list(o)

    def __repr__(self):
        return f"Rep{self._x}"


def make_fake_module(desc):
    mod = types.SimpleNamespace()

    def default(f):
        if f.message_type is not None and f.message_type.GetOptions().map_entry:
            return {}
        if f.is_repeated:
            return FakeRepeated()
        if f.type == FD.TYPE_MESSAGE:
            return None
        if f.type in (FD.TYPE_STRING,):
            return ""
        if f.type in (FD.TYPE_BOOL,):
            return False
        if f.type in (FD.TYPE_DOUBLE, FD.TYPE_FLOAT):
            return 0.0
        return 0

    for name, md in desc.message_types_by_name.items():
        fields = list(md.fields)

        def init(self, _fields=fields, **kw):
            for f in _fields:
                v = kw.pop(f.name, None)
                if v is None:
                    v = default(f)
                elif f.message_type is not None and f.message_type.GetOptions().map_entry:
                    v = dict(v)
                elif f.is_repeated:
                    v = FakeRepeated(v)
                setattr(self, f.name, v)
            assert not kw, kw
        setattr(mod, name, type(name, (), {"__init__": init}))
    for ename, ed in desc.enum_types_by_name.items():
        for v in ed.values:
            setattr(mod, v.name, v.number)
        setattr(mod, ename, types.SimpleNamespace(ValueType=int))
    return mod


def install_fake_pb2():
    fake = make_fake_module(real_pb2.DESCRIPTOR)
    gc.api_pb2 = fake
    gs.api_pb2 = fake
    return fake


def install_real_pb2():
    gc.api_pb2 = real_pb2
    gs.api_pb2 = real_pb2
