"""Module-global rebinding helpers (never edits /repo; DESIGN.md §1.3)."""
import symex as sx


def shim_frozen_trial():
    """FrozenTrial._validate calls math.isnan on values"""
    from optuna.trial import _frozen
    _frozen.math = sx.mathshim


def shim_tell():
    from optuna.study import _tell
    from optuna.trial import _trial
    _tell.float = sx.float_shim
    _tell.math = sx.mathshim
    _trial.float = sx.float_shim
