"""In-memory journal backend (DESIGN.md §1.3 'fake journal backend' + 'JSON model').

`jsonish` models json.loads(json.dumps(x)) for the value kinds that occur in journal records: finite floats/ints/str/bool/None
round-trip exactly, NaN/Infinity tokens round-trip, tuples -> lists, non-str keys -> str keys, IntEnum -> int, anything else raises
TypeError (as json.dumps does). Symbolic numbers pass through unchanged (finite doubles round-trip exactly through repr)."""
from __future__ import annotations

import copy
import enum
import json

from optuna.storages.journal._base import BaseJournalBackend

import symex as sx


PASS_THROUGH: tuple = ()      # further proxy classes that stand for finite JSON numbers (registered by harnesses)


def jsonish(x):
    if sx.is_symnum(x) or (PASS_THROUGH and isinstance(x, PASS_THROUGH)):
        return x
    if isinstance(x, enum.IntEnum):
        return int(x)
    if isinstance(x, dict):
        out = {}
        for k, v in x.items():
            if isinstance(k, bool):
                k = "true" if k else "false"
            elif k is None:
                k = "null"
            elif isinstance(k, (int, float)):
                k = json.dumps(k)
            elif not isinstance(k, str):
                raise TypeError(f"keys must be str, int, float, bool or None, not {type(k).__name__}")
            out[k] = jsonish(v)
        return out
    if isinstance(x, (list, tuple)):
        return [jsonish(v) for v in x]
    if x is None or isinstance(x, (bool, int, float, str)):
        return x
    raise TypeError(f"Object of type {type(x).__name__} is not JSON serializable")


def has_sym(x):
    if sx.is_symnum(x) or (PASS_THROUGH and isinstance(x, PASS_THROUGH)):
        return True
    if isinstance(x, dict):
        return any(has_sym(v) for v in x.values())
    if isinstance(x, (list, tuple)):
        return any(has_sym(v) for v in x)
    return False


def roundtrip(x):
    """the real json when the record is concrete, the model when proxies flow through it"""
    if has_sym(x):
        return jsonish(x)
    return json.loads(json.dumps(x, separators=(",", ":")))


class ListBackend(BaseJournalBackend):
    def __init__(self):
        self.logs = []

    def read_logs(self, log_number_from):
        return copy.deepcopy(self.logs[log_number_from:])

    def append_logs(self, logs):
        self.logs.extend(roundtrip(l) for l in logs)


class _JsonToken(str):
    pass


class JsonModel:
    """stands in for the `json` module where proxies flow through dumps/loads: the real json when the value is concrete"""

    def __getattr__(self, n):
        return getattr(json, n)

    @staticmethod
    def dumps(obj, *a, **kw):
        if has_sym(obj):
            t = _JsonToken("<json with symbolic numbers>")
            t.val = jsonish(obj)
            return t
        return json.dumps(obj, *a, **kw)

    @staticmethod
    def loads(s, *a, **kw):
        if isinstance(s, _JsonToken):
            return copy.deepcopy(s.val)
        return json.loads(s, *a, **kw)
