"""Fake RDB backend for _CachedStorage (DESIGN.md §1.3): InMemoryStorage + the two private entry points
_CachedStorage needs. `_get_trials` transcribes RDBStorage._get_trials: the pure-Python id-filter prologue followed
by the SQL WHERE clause (study_id == ?, state IN ?, id IN included OR id > greater_than), ordered by trial id.
Conformance with the real RDBStorage over SQLite is checked by harness.c08 `fake-rdb-conformance`."""
from __future__ import annotations

import copy

from optuna.storages import InMemoryStorage


class FakeRDB(InMemoryStorage):
    def _create_new_trial(self, study_id, template_trial=None):
        tid = self.create_new_trial(study_id, template_trial)
        return copy.deepcopy(self.get_trial(tid))

    def _get_trials(self, study_id, states, included_trial_ids, trial_id_greater_than):
        included = set(i for i in included_trial_ids if i <= trial_id_greater_than)
        ts = self.get_all_trials(study_id, deepcopy=True, states=None)   # raises KeyError for unknown study
        if states is not None:
            ts = [t for t in ts if t.state in states]
        if len(included) > 0 and trial_id_greater_than > -1:
            ts = [t for t in ts if t._trial_id in included or t._trial_id > trial_id_greater_than]
        elif trial_id_greater_than > -1:
            ts = [t for t in ts if t._trial_id > trial_id_greater_than]
        return sorted(ts, key=lambda t: t._trial_id)

    # RDBStorage builds fresh FrozenTrial objects for every read
    def get_trial(self, trial_id):
        return copy.deepcopy(super().get_trial(trial_id))

    def get_all_trials(self, study_id, deepcopy=True, states=None):
        return super().get_all_trials(study_id, deepcopy=True, states=states)

    # heartbeat API so that _CachedStorage's BaseHeartbeat methods can be called
    def record_heartbeat(self, trial_id):
        pass

    def _get_stale_trial_ids(self, study_id):
        return []

    def get_heartbeat_interval(self):
        return None

    def get_failed_trial_callback(self):
        return None
