"""NumPy shim (DESIGN.md §1.3): forwards to real NumPy; overrides only the functions that cannot act on object arrays holding
proxies. Installed by rebinding `np` in the module under test. Every override falls through to the real function when no
proxy is present, so concrete replays run the real NumPy. `validate()` compares each override with real NumPy on concrete
inputs (ties, NaN, +-inf, duplicates)."""
from __future__ import annotations

import builtins
import math

import numpy as _np
import z3

import symex as sx
from symex.proxies import SymBool, SymInt, SymReal


def _has_sym(a):
    if sx.is_sym(a):
        return True
    if isinstance(a, _np.ndarray):
        return a.dtype == object and any(sx.is_sym(x) for x in a.ravel())
    if isinstance(a, (list, tuple)):
        return any(_has_sym(x) for x in a)
    return False


def _isnan(x):
    if sx.is_symnum(x):
        return False
    if isinstance(x, SymBool):
        return False
    return isinstance(x, (float, _np.floating)) and math.isnan(x)


def _obj(a):
    a2 = _np.empty(len(a), dtype=object)
    for i, x in enumerate(a):
        a2[i] = x
    return a2


def _lt(a, b):
    return a < b


def _sorted(xs):
    """insertion sort with (possibly symbolic) comparisons; stable"""
    s = []
    for x in xs:
        k = len(s)
        while k > 0 and bool(_lt(x, s[k - 1])):
            k -= 1
        s.insert(k, x)
    return s


def _dt(dtype):
    """modules under test may have `float`/`int` rebound to shims; numpy needs the real types"""
    if dtype is sx.float_shim or dtype is sx.FloatType:
        return builtins.float
    if dtype is sx.int_shim or dtype is sx.IntType:
        return builtins.int
    return dtype


class NPShim:
    def __init__(self, real=_np):
        self._r = real

    def __getattr__(self, n):
        return getattr(self._r, n)

    # ------------------------------------------------------------------ construction
    def asarray(self, a, dtype=None, **kw):
        dtype = _dt(dtype)
        if isinstance(a, _np.ndarray):
            if a.dtype == object and _has_sym(a):
                return a
            return self._r.asarray(a, dtype=dtype, **kw)
        if _has_sym(a):
            return self._to_obj(a)
        return self._r.asarray(a, dtype=dtype, **kw)

    def array(self, a, dtype=None, **kw):
        dtype = _dt(dtype)
        if _has_sym(a):
            r = self._to_obj(a)
            return r.copy() if isinstance(a, _np.ndarray) else r
        return self._r.array(a, dtype=dtype, **kw)

    def _to_obj(self, a):
        if isinstance(a, _np.ndarray):
            return a.astype(object)
        a = list(a)
        if a and isinstance(a[0], (list, tuple, _np.ndarray)):
            rows = [list(r) for r in a]
            out = _np.empty((len(rows), len(rows[0])), dtype=object)
            for i, r in enumerate(rows):
                for j, v in enumerate(r):
                    out[i, j] = v
            return out
        return _obj(a)

    # ------------------------------------------------------------------ predicates
    def isnan(self, a):
        if sx.is_sym(a):
            return False
        if isinstance(a, _np.ndarray) and a.dtype == object:
            return self._r.array([_isnan(x) for x in a.ravel()], dtype=bool).reshape(a.shape)
        return self._r.isnan(a)

    def isfinite(self, a):
        if sx.is_sym(a):
            return True
        if isinstance(a, _np.ndarray) and a.dtype == object:
            return self._r.array([True if sx.is_sym(x) else bool(self._r.isfinite(x)) for x in a.ravel()], dtype=bool).reshape(a.shape)
        return self._r.isfinite(a)

    def isinf(self, a):
        if sx.is_sym(a):
            return False
        if isinstance(a, _np.ndarray) and a.dtype == object:
            return self._r.array([False if sx.is_sym(x) else bool(self._r.isinf(x)) for x in a.ravel()], dtype=bool).reshape(a.shape)
        return self._r.isinf(a)

    def all(self, a, axis=None, **kw):
        if _has_sym(a):
            a = self._r.asarray(a, dtype=object) if not isinstance(a, _np.ndarray) else a
            if axis is None:
                ok = True
                for x in a.ravel():
                    if not x:
                        ok = False
                return ok
            assert a.ndim == 2
            if axis in (1, -1):
                return self._r.array([builtins.all(bool(x) for x in row) for row in a], dtype=bool)
            return self._r.array([builtins.all(bool(x) for x in a[:, j]) for j in range(a.shape[1])], dtype=bool)
        return self._r.all(a, axis=axis, **kw)

    def any(self, a, axis=None, **kw):
        if _has_sym(a):
            a = self._r.asarray(a, dtype=object) if not isinstance(a, _np.ndarray) else a
            if axis is None:
                return builtins.any(bool(x) for x in a.ravel())
            assert a.ndim == 2
            if axis in (1, -1):
                return self._r.array([builtins.any(bool(x) for x in row) for row in a], dtype=bool)
            return self._r.array([builtins.any(bool(x) for x in a[:, j]) for j in range(a.shape[1])], dtype=bool)
        return self._r.any(a, axis=axis, **kw)

    # ------------------------------------------------------------------ order statistics
    def _clean(self, a):
        return [x for x in list(self._r.asarray(a, dtype=object).ravel()) if not _isnan(x)]

    def nanmin(self, a, **kw):
        if not _has_sym(a):
            return self._r.nanmin(a, **kw)
        xs = self._clean(a)
        if not xs:
            return float("nan")
        m = xs[0]
        for x in xs[1:]:
            if x < m:
                m = x
        return m

    def nanmax(self, a, **kw):
        if not _has_sym(a):
            return self._r.nanmax(a, **kw)
        xs = self._clean(a)
        if not xs:
            return float("nan")
        m = xs[0]
        for x in xs[1:]:
            if x > m:
                m = x
        return m

    def _percentile(self, xs, q):
        if not xs:
            return float("nan")
        s = _sorted(xs)
        n = len(s)
        if n == 1:
            return s[0]
        # numpy default method 'linear': virtual index (n-1)*q/100, evaluated EXACTLY (rationals) - the claim is over the reals
        if not sx.is_sym(q):
            import fractions
            pos = fractions.Fraction(n - 1) * fractions.Fraction(q) / 100
            i = int(math.floor(pos))
            fr = pos - i
            if i >= n - 1:
                return s[-1]
            if fr == 0:
                return s[i]
            return s[i] + fr * (s[i + 1] - s[i])
        pos = (n - 1) * q / 100
        for i in range(n - 1):
            if (pos >= i) & (pos <= i + 1):
                fr = pos - i
                return s[i] + fr * (s[i + 1] - s[i])
        return s[-1]

    def nanpercentile(self, a, q, **kw):
        if not (_has_sym(a) or sx.is_sym(q)):
            return self._r.nanpercentile(a, q, **kw)
        return self._percentile(self._clean(a), q)

    def percentile(self, a, q, **kw):
        if not (_has_sym(a) or sx.is_sym(q)):
            return self._r.percentile(a, q, **kw)
        xs = list(self._r.asarray(a, dtype=object).ravel())
        if builtins.any(_isnan(x) for x in xs):
            return float("nan")
        return self._percentile(xs, q)

    def clip(self, x, lo, hi, **kw):
        if not (_has_sym(x) or sx.is_sym(lo) or sx.is_sym(hi)):
            return self._r.clip(x, lo, hi, **kw)
        if isinstance(x, _np.ndarray):
            return self._to_obj([self.clip(v, lo, hi) for v in x.ravel()]).reshape(x.shape)
        if x < lo:
            return lo
        if x > hi:
            return hi
        return x

    def round(self, x, decimals=0, **kw):
        if not _has_sym(x):
            return self._r.round(x, decimals, **kw)
        assert decimals == 0
        if isinstance(x, _np.ndarray):
            return self._to_obj([builtins.round(v) if sx.is_sym(v) else self._r.round(v) for v in x.ravel()]).reshape(x.shape)
        return builtins.round(x)

    # ------------------------------------------------------------------ unique / sorting
    def unique(self, a, axis=None, return_inverse=False, return_index=False, **kw):
        if not _has_sym(a):
            return self._r.unique(a, axis=axis, return_inverse=return_inverse, return_index=return_index, **kw)
        a = self._r.asarray(a, dtype=object) if not isinstance(a, _np.ndarray) else a
        if axis is None:
            assert a.ndim == 1
            rows = [(x,) for x in a]
        else:
            assert axis == 0 and a.ndim == 2
            rows = [tuple(r) for r in a]

        def lex_lt(x, y):
            for u, v in zip(x, y):
                if u < v:
                    return True
                if v < u:
                    return False
            return False

        def lex_eq(x, y):
            for u, v in zip(x, y):
                if not (u == v):
                    return False
            return True
        uniq = []
        for i, r in enumerate(rows):
            if not builtins.any(lex_eq(r, u) for (u, _) in uniq):
                uniq.append((r, i))
        srt = []
        for (r, i) in uniq:
            k = 0
            while k < len(srt) and lex_lt(srt[k][0], r):
                k += 1
            srt.insert(k, (r, i))
        if axis is None:
            out = _obj([r[0] for r, _ in srt])
        else:
            out = self._r.empty((len(srt), a.shape[1]), dtype=object)
            for k, (r, i) in enumerate(srt):
                for c, v in enumerate(r):
                    out[k, c] = v
        res = [out]
        if return_index:
            res.append(self._r.array([i for _, i in srt], dtype=int))
        if return_inverse:
            inv = []
            for r in rows:
                for k, (u, _) in enumerate(srt):
                    if lex_eq(r, u):
                        inv.append(k)
                        break
            res.append(self._r.array(inv, dtype=int))
        return res[0] if len(res) == 1 else tuple(res)

    def argsort(self, a, **kw):
        if not _has_sym(a):
            return self._r.argsort(a, **kw)
        xs = list(a)
        idx = []
        for i, x in enumerate(xs):
            k = len(idx)
            while k > 0 and bool(x < xs[idx[k - 1]]):
                k -= 1
            idx.insert(k, i)
        return self._r.array(idx, dtype=int)

    def argmax(self, a, **kw):
        if not _has_sym(a):
            return self._r.argmax(a, **kw)
        xs = list(a)
        best = 0
        for i in range(1, len(xs)):
            if xs[i] > xs[best]:
                best = i
        return best

    def argmin(self, a, **kw):
        if not _has_sym(a):
            return self._r.argmin(a, **kw)
        xs = list(a)
        best = 0
        for i in range(1, len(xs)):
            if xs[i] < xs[best]:
                best = i
        return best

    def count_nonzero(self, a, **kw):
        if _has_sym(a):
            return builtins.sum(1 for x in self._r.asarray(a, dtype=object).ravel() if x)
        return self._r.count_nonzero(a, **kw)


class NPShimObj(NPShim):
    """variant for modules that allocate result arrays before filling them with proxies (hypervolume / HSSP):
    float allocations become object arrays"""

    def empty(self, shape, dtype=None, **kw):
        if dtype in (int, bool, _np.int64, _np.bool_):
            return self._r.empty(shape, dtype=dtype)
        return self._r.empty(shape, dtype=object)

    def zeros(self, shape, dtype=None, **kw):
        if dtype in (int, bool, _np.int64, _np.bool_):
            return self._r.zeros(shape, dtype=dtype)
        a = self._r.empty(shape, dtype=object)
        a.fill(0.0)
        return a

    def isnan(self, a):
        if isinstance(a, _np.ndarray) and a.dtype == object:
            return self._r.array([_isnan(x) for x in a.ravel()], dtype=bool).reshape(a.shape)
        return super().isnan(a)

    def max(self, a, initial=None, **kw):
        if _has_sym(a):
            xs = list(self._r.asarray(a, dtype=object).ravel())
            m = initial
            for x in xs:
                if m is None or x > m:
                    m = x
            return m
        if initial is not None:
            return self._r.max(a, initial=initial, **kw)
        return self._r.max(a, **kw)

    def logical_and(self, a, b):
        if _has_sym(a) or _has_sym(b):
            a = self._r.asarray(a, dtype=object)
            b = self._r.asarray(b, dtype=object)
            return self._r.array([bool(x) and bool(y) for x, y in zip(a.ravel(), b.ravel())], dtype=bool).reshape(a.shape)
        return self._r.logical_and(a, b)


npshim = NPShim()
npshim_obj = NPShimObj()


def validate():
    """differential test of every override against real NumPy on concrete inputs; returns list of mismatches"""
    import itertools
    real = _np
    bad = []
    vals = [0.0, 1.0, -1.0, 2.5, float("inf"), float("-inf"), float("nan"), 1.0]
    sh = NPShim()

    def eq(a, b):
        a, b = real.asarray(a, dtype=float), real.asarray(b, dtype=float)
        return a.shape == b.shape and real.array_equal(a, b, equal_nan=True)
    n = 0
    for k in (1, 2, 3):
        for xs in itertools.product(vals[:7], repeat=k):
            arr = real.array(xs, dtype=float)
            o = _obj(list(xs))
            clean = [x for x in xs if not math.isnan(x)]
            for q in (0, 25, 50, 100, 33.3):
                n += 1
                if clean and not builtins.any(math.isinf(x) for x in clean):
                    got = float(sh._percentile(clean, q))
                    want = real.nanpercentile(arr, q)
                    if not (math.isclose(got, want, rel_tol=1e-12, abs_tol=1e-12)):
                        bad.append(("nanpercentile", xs, q, got, want))
            if clean:
                m = clean[0]
                for x in clean[1:]:
                    if x < m:
                        m = x
                if m != real.nanmin(arr):
                    bad.append(("nanmin", xs))
            if k == 2:
                for ys in itertools.product([0.0, 1.0], repeat=2):
                    rows = [list(xs), list(ys), list(xs)]
                    if builtins.any(math.isnan(v) for r in rows for v in r):
                        continue
                    # the symbolic algorithm, run on concrete numbers through the object path
                    o2 = real.array(rows, dtype=object)
                    u1, inv1 = NPShim.unique.__wrapped__(sh, o2, 0, True) if hasattr(NPShim.unique, "__wrapped__") else _force_unique(sh, o2)
                    u2, inv2 = real.unique(real.array(rows, dtype=float), axis=0, return_inverse=True)
                    n += 1
                    if not (eq(u1, u2) and list(inv1) == list(real.ravel(inv2))):
                        bad.append(("unique", rows))
    return n, bad


def _force_unique(sh, o2):
    """run the override's algorithm on a concrete object array by temporarily treating it as symbolic"""
    global _has_sym
    saved = _has_sym
    _has_sym = lambda a: True  # noqa: E731
    try:
        return sh.unique(o2, axis=0, return_inverse=True)
    finally:
        _has_sym = saved
