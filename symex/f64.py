"""SymF64: double-precision arithmetic under the standard model (DESIGN.md §1.2).

fl(x op y) = (x op y)(1+d), |d| <= 2^-53, encoded soundly as a fresh real constrained to an interval around the exact result whose
half-width is u*B with B a bound on |exact| that is itself asserted (so over/underflow are excluded by the stated magnitude bounds).
Additional facts that hold for IEEE round-to-nearest are added where cheap: monotonicity of rounding w.r.t. representable
operands (fl(a+b) >= a if b >= 0, ...). This is an OVER-approximation: `unsat` is a proof about real doubles, `sat` is only a
candidate that must replay concretely. Multiplication/division are by concrete constants only (keeps queries linear)."""
from __future__ import annotations

from fractions import Fraction

import numpy as np
import z3

from . import core
from .proxies import SymBool, SymInt, rv

U = Fraction(1, 2 ** 53)


class F64Ctx:
    B = None        # Fraction: bound on the magnitude of every intermediate result (asserted)


def _fresh(name, sort=z3.Real):
    ex = core.cur()
    return sort(ex.fresh_name(name))


def lift(o):
    """-> (z3 real term, is_constant, python constant or None)"""
    if isinstance(o, F64):
        return o.e, False, None
    if isinstance(o, SymZ):
        return z3.ToReal(o.e), False, None
    if isinstance(o, SymInt):
        return z3.ToReal(o.e), False, None
    if isinstance(o, (bool,)):
        raise TypeError
    if isinstance(o, (int, float, np.floating, np.integer)):
        return rv(float(o)), True, Fraction(float(o))
    raise TypeError(type(o))


def rnd(exact, scale=Fraction(1), facts=()):
    """a double within u*B*scale of `exact`"""
    ex = core.cur()
    r = _fresh("fl")
    err = rv(U * F64Ctx.B * scale)
    ex.add(z3.And(r >= exact - err, r <= exact + err, *facts_for(r, facts)))
    return F64(r)


def facts_for(r, facts):
    return [f(r) for f in facts]


class F64:
    """a finite double whose value is the z3 real `e` (exactly representable by construction or by assumption)"""
    __slots__ = ("e",)

    def __init__(self, e):
        self.e = e

    def __add__(s, o):
        b, const, c = lift(o)
        if const and c == 0:
            return s
        # monotonicity of round-to-nearest: both operands are doubles, so fl(a+b) lies on the same side of a as b's sign (and vice versa)
        facts = [lambda r: z3.Implies(b >= 0, r >= s.e), lambda r: z3.Implies(b <= 0, r <= s.e),
                 lambda r: z3.Implies(s.e >= 0, r >= b), lambda r: z3.Implies(s.e <= 0, r <= b)]
        return rnd(s.e + b, facts=facts)

    __radd__ = __add__

    def __sub__(s, o):
        b, const, c = lift(o)
        if const and c == 0:
            return s
        facts = [lambda r: z3.Implies(b >= 0, r <= s.e), lambda r: z3.Implies(b <= 0, r >= s.e),
                 lambda r: z3.Implies(s.e >= b, r >= 0), lambda r: z3.Implies(s.e <= b, r <= 0)]
        return rnd(s.e - b, facts=facts)

    def __rsub__(s, o):
        b, const, c = lift(o)
        facts = [lambda r: z3.Implies(b >= s.e, r >= 0), lambda r: z3.Implies(b <= s.e, r <= 0)]
        return rnd(b - s.e, facts=facts)

    def __mul__(s, o):
        b, const, c = lift(o)
        if not const:
            raise core.HarnessError("multiplication by a symbolic value is outside the linear float model")
        if c == 1:
            return s
        facts = [lambda r: z3.Implies(s.e >= 0, (r >= 0) if c >= 0 else (r <= 0)), lambda r: z3.Implies(s.e <= 0, (r <= 0) if c >= 0 else (r >= 0))]
        return rnd(s.e * b, scale=max(Fraction(1), abs(c)), facts=facts)

    __rmul__ = __mul__

    def __truediv__(s, o):
        b, const, c = lift(o)
        if not const:
            raise core.HarnessError("division by a symbolic value is outside the linear float model")
        if c == 1:
            return s
        facts = [lambda r: z3.Implies(s.e >= 0, (r >= 0) if c > 0 else (r <= 0)), lambda r: z3.Implies(s.e <= 0, (r <= 0) if c > 0 else (r >= 0))]
        return rnd(s.e / b, scale=max(Fraction(1), 1 / abs(c)), facts=facts)

    def _cmp(op):
        def f(s, o):
            try:
                b = lift(o)[0]
            except TypeError:
                return NotImplemented
            return SymBool(op(s.e, b))
        return f
    __lt__ = _cmp(lambda a, b: a < b)
    __le__ = _cmp(lambda a, b: a <= b)
    __gt__ = _cmp(lambda a, b: a > b)
    __ge__ = _cmp(lambda a, b: a >= b)
    __eq__ = _cmp(lambda a, b: a == b)
    __ne__ = _cmp(lambda a, b: a != b)

    def __hash__(s):
        return id(s)

    def __neg__(s):
        return F64(-s.e)

    def __abs__(s):
        return F64(z3.If(s.e >= 0, s.e, -s.e))

    def __round__(s, nd=None):
        return SymZ.nearest(s)

    def __repr__(s):
        return f"F64({s.e})"

    def __deepcopy__(s, memo):
        return s

    def __copy__(s):
        return s


class SymZ:
    """integer-valued result of round() on an F64 (exactly representable while |n| < 2^53, asserted through B)"""
    __slots__ = ("e",)

    def __init__(self, e):
        self.e = e

    @staticmethod
    def nearest(x):
        ex = core.cur()
        n = _fresh("n", z3.Int)
        # ties either way: over-approximation of half-to-even
        ex.add(z3.And(z3.ToReal(n) - x.e <= rv(Fraction(1, 2)), x.e - z3.ToReal(n) <= rv(Fraction(1, 2))))
        return SymZ(n)

    def __mul__(s, o):
        b, const, c = lift(o)
        if not const:
            raise core.HarnessError("SymZ * symbolic")
        if c == 1:
            return F64(z3.ToReal(s.e))
        return rnd(z3.ToReal(s.e) * b, scale=max(Fraction(1), abs(c)))

    __rmul__ = __mul__

    def __rsub__(s, o):
        # k - round(k): |k - round(k)| <= 1/2 and both are doubles of similar magnitude -> exact (Sterbenz)
        b = lift(o)[0]
        return F64(b - z3.ToReal(s.e))

    def __sub__(s, o):
        b = lift(o)[0]
        return F64(z3.ToReal(s.e) - b)

    def __add__(s, o):
        b, const, c = lift(o)
        return rnd(z3.ToReal(s.e) + b)

    __radd__ = __add__

    def __repr__(s):
        return f"Z({s.e})"


def _defer_to_ndarray(cls):
    """binary operators return NotImplemented for ndarray operands so that NumPy applies them elementwise"""
    import functools
    for name in ("__add__", "__radd__", "__sub__", "__rsub__", "__mul__", "__rmul__", "__truediv__", "__lt__", "__le__", "__gt__", "__ge__",
                 "__eq__", "__ne__"):
        f = cls.__dict__.get(name)
        if f is None:
            continue

        def wrap(f):
            @functools.wraps(f)
            def g(self, o):
                if isinstance(o, np.ndarray):
                    return NotImplemented
                return f(self, o)
            return g
        setattr(cls, name, wrap(f))


_defer_to_ndarray(F64)
_defer_to_ndarray(SymZ)


def is_f64(x):
    return isinstance(x, (F64, SymZ))


def float_shim(x=0.0):
    import builtins
    if isinstance(x, F64):
        return x
    if isinstance(x, SymZ):
        return F64(z3.ToReal(x.e))
    from .proxies import float_shim as base
    return base(x)


class NPF64:
    """np stand-in for modules whose scalar kernels run on F64 proxies"""

    def __init__(self):
        self._r = np

    def __getattr__(self, n):
        return getattr(np, n)

    def round(self, x, *a, **k):
        if isinstance(x, F64):
            return SymZ.nearest(x)
        from .proxies import SymReal
        if isinstance(x, SymReal):
            return round(x)
        return np.round(x, *a, **k)

    def clip(self, x, lo, hi, **k):
        from .proxies import is_sym
        if not (is_f64(x) or is_f64(lo) or is_f64(hi) or is_sym(x) or is_sym(lo) or is_sym(hi)):
            return np.clip(x, lo, hi, **k)
        if isinstance(x, SymZ):
            x = F64(z3.ToReal(x.e))
        if x < lo:
            return lo
        if x > hi:
            return hi
        return x

    def nextafter(self, a, b):
        """nextafter(a, b) for b < a: the largest double below a. Model: a fresh double h with h < a and nothing representable in between
        (any double strictly below a is <= h); magnitude facts are added by the harness through `nextafter_facts`."""
        from .proxies import is_sym, SymReal
        if not (is_f64(a) or is_sym(a)):
            return np.nextafter(a, b)
        ex = core.cur()
        h = _fresh("nextafter")
        ae = a.e if not isinstance(a, SymInt) else z3.ToReal(a.e)
        ex.add(h < ae)
        NPF64.last_nextafter.append((h, ae))
        return F64(h) if is_f64(a) else SymReal(h)

    last_nextafter: list = []

    def isclose(self, a, b, rtol=1e-05, atol=1e-08, **k):
        """documented definition |a - b| <= atol + rtol*|b|, elementwise; works on object arrays holding proxies"""
        a_ = np.asarray(a, dtype=object)
        b_ = np.asarray(b, dtype=object)
        if a_.dtype != object and b_.dtype != object:
            return np.isclose(a, b, rtol=rtol, atol=atol, **k)
        out = np.empty(a_.shape, dtype=bool)
        for idx in np.ndindex(a_.shape):
            x, y = a_[idx], b_[idx]
            out[idx] = bool(abs(x - y) <= atol + rtol * abs(y))
        return out

    def isnan(self, x):
        from .proxies import is_sym
        if is_f64(x) or is_sym(x):
            return False
        return np.isnan(x)
