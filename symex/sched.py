"""Schedules of atomic storage calls (DESIGN.md §1.2): k workers run real code in hand-over-hand threads; before every
storage call the next worker to move is an explorer choice, so all interleavings at storage-call granularity are covered.
A worker may also be crashed: it simply never gets scheduled again (its thread is killed at the end of the path)."""
from __future__ import annotations

import threading

from . import core
from .proxies import choose


class Kill(BaseException):
    pass


class Sched:
    def __init__(self, allow_crash=False, max_steps=200):
        self.main = threading.Semaphore(0)
        self.workers = []
        self.kill = False
        self.err = None
        self.nstep = 0
        self.cur = None
        self.allow_crash = allow_crash
        self.crashed = []
        self.max_steps = max_steps
        self.trace = []

    def spawn(self, fn, name=None):
        w = {"sem": threading.Semaphore(0), "done": False, "res": None, "name": name or f"w{len(self.workers)}", "crashed": False,
             "started": False}

        def body():
            w["sem"].acquire()
            try:
                if self.kill:
                    raise Kill()
                w["started"] = True
                w["res"] = fn()
            except Kill:
                pass
            except BaseException as e:  # noqa  (explorer control exceptions must reach the main thread)
                w["exc"] = e
                if isinstance(e, (core.PathAbort, core.Cutoff, core.Inconclusive, core.HarnessError, AssertionError)) or not isinstance(e, Exception):
                    self.err = e
            finally:
                w["done"] = True
                self.main.release()
        w["thread"] = threading.Thread(target=body, daemon=True)
        w["thread"].start()
        self.workers.append(w)
        return w

    def yield_(self):
        """called by a worker before each atomic step"""
        me = self.cur
        self.main.release()
        me["sem"].acquire()
        if self.kill:
            raise Kill()

    def run(self):
        try:
            while True:
                live = [w for w in self.workers if not w["done"] and not w["crashed"]]
                if not live:
                    break
                if self.err:
                    raise self.err
                self.nstep += 1
                if self.nstep > self.max_steps:
                    raise core.HarnessError("schedule exceeded max_steps")
                opts = list(range(len(live)))
                n_opts = len(live) + (len([w for w in live if w["started"]]) if self.allow_crash and not self.crashed else 0)
                i = 0 if n_opts == 1 else choose(n_opts, f"sched{self.nstep}")
                if i >= len(live):
                    victim = [w for w in live if w["started"]][i - len(live)]
                    victim["crashed"] = True
                    self.crashed.append(victim["name"])
                    self.trace.append(("crash", victim["name"]))
                    continue
                self.cur = live[i]
                self.trace.append(live[i]["name"])
                live[i]["sem"].release()
                self.main.acquire()
            if self.err:
                raise self.err
        finally:
            self.kill = True
            for w in self.workers:
                if not w["done"]:
                    w["sem"].release()
            for w in self.workers:
                w["thread"].join(timeout=5)


class Stepwise:
    """storage wrapper: each public call (and the listed private ones) is preceded by a scheduling point"""

    def __init__(self, inner, sched, private=(), only=None):
        self._i = inner
        self._s = sched
        self._private = set(private)
        self._only = None if only is None else set(only)     # if given: scheduling points only before these calls (the others commute)

    def __getattr__(self, n):
        a = getattr(self._i, n)
        if not callable(a) or (n.startswith("_") and n not in self._private):
            return a

        def f(*args, **kw):
            th = threading.current_thread()
            if th is not threading.main_thread() and not getattr(th, "no_yield", False) and (self._only is None or n in self._only):
                self._s.yield_()
            return a(*args, **kw)
        return f
