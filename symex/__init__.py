from .core import (Explorer, ConcreteRun, HarnessError, Inconclusive, PathAbort, cur, active)  # noqa
from .proxies import *  # noqa
from .proxies import mathshim, float_shim, int_shim, isinstance_shim, FloatType, IntType  # noqa
from .runner import Obligation  # noqa
