"""Obligation runner: shards path exploration over processes, replays counterexamples concretely,
applies the known-findings file, writes evidence, decides the exit code.

exit 0  every obligation discharged (or only listed known findings re-derived)
exit 1  a replayed violation not listed in known_findings.json  (prints VIOLATION property=<id> replay=<path>)
exit 2  inconclusive (solver unknown / budget exhausted / counterexample candidates that do not replay)
exit 3  harness error
"""
from __future__ import annotations

import hashlib
import importlib
import inspect
import json
import multiprocessing as mp
import os
import sys
import time
import traceback
from dataclasses import dataclass, field
from typing import Any, Callable

VERIF = os.path.dirname(os.path.dirname(os.path.abspath(__file__)))


@dataclass
class Obligation:
    name: str
    body: Callable[[], Any]
    setup: Callable[[bool], None] | None = None      # setup(concrete) installs shims in the worker process
    code: list = field(default_factory=list)          # real functions executed symbolically (callables)
    bounds: dict = field(default_factory=dict)
    shard_depth: int | None = None
    budget_s: float = 600.0
    timeout_ms: int = 60000
    classify: Callable[[dict], str] | None = None     # cex json -> finding class key
    require_reach: list = field(default_factory=list)  # reach labels that must be hit (vacuity guard)
    describe: str = ""
    custom: Callable[[], dict] | None = None          # non-E1 obligation (e.g. BMC): returns result dict
    replay_custom: Callable[[dict], tuple] | None = None


# ---------------------------------------------------------------------------------------------- worker side
def _find(modname, obname, tier):
    mod = importlib.import_module(modname)
    for ob in mod.obligations(tier):
        if ob.name == obname:
            return ob
    raise KeyError(obname)


def _quiet():
    import logging
    import warnings
    warnings.simplefilter("ignore")
    try:
        import optuna
        optuna.logging.set_verbosity(optuna.logging.CRITICAL)
        optuna.logging.disable_default_handler()
    except Exception:
        pass
    logging.disable(logging.CRITICAL)


SPLIT1 = 3          # depth of the first, sequential split
_RUNDIR = [None]


def cleanup():
    import shutil
    if _RUNDIR[0]:
        shutil.rmtree(_RUNDIR[0], ignore_errors=True)


def _stop_flag(obname):
    d = _RUNDIR[0] or os.environ.get("VERIF_RUNDIR")
    return os.path.join(d, obname + ".stop") if d else None


def _job(args):
    modname, obname, tier, mode, payload = args
    t0 = time.time()
    try:
        _quiet()
        from . import core
        ob = _find(modname, obname, tier)
        if mode == "custom":
            res = ob.custom()
            res.setdefault("wall_s", time.time() - t0)
            return res
        if mode == "replay":
            if ob.replay_custom is not None:
                ok, desc = ob.replay_custom(payload)
                return {"reproduced": ok, "desc": desc}
            if ob.setup:
                ob.setup(True)
            run = core.ConcreteRun(payload)
            ok, desc = run.run(ob.body)
            return {"reproduced": ok, "desc": desc, "inexact": run.inexact}
        if ob.setup:
            ob.setup(False)
        keyfn = None
        if ob.classify:
            keyfn = lambda c: ob.classify(c.to_json())  # noqa: E731
        deadline = t0 + ob.budget_s
        out = {"stats": None, "cex": [], "cex_keys": {}, "inconclusive": [], "prefixes": [], "error": None}
        flag = _stop_flag(obname)
        if flag and os.path.exists(flag):
            # the parent has already collected counterexamples that are not listed known findings for this obligation
            out["stats"] = core.Stats().to_json()
            out["samples"] = []
            out["inconclusive"] = ["remaining shards skipped after counterexamples were found"]
            out["wall_s"] = 0.0
            return out
        prop_id = modname.split(".")[-1].upper()
        known = set(load_known(prop_id))
        known |= {k.split(":", 1)[1] for k in known if k.startswith(obname + ":")}

        def _mk(**kw):
            ex = core.Explorer(**kw)
            ex.known_keys = known
            return ex
        if mode == "split":
            # payload = {"depth": d, "prefixes": [...] | None}: two-level splitting - a shallow sequential split, then the deep split of
            # every shallow prefix runs in parallel worker processes
            depth = (payload or {}).get("depth", ob.shard_depth)
            exs = []
            for prefix in ((payload or {}).get("prefixes") or [None]):
                ex = _mk(prefix=prefix, split_depth=depth, timeout_ms=ob.timeout_ms, deadline=deadline, cex_key=keyfn)
                ex.run(ob.body)
                exs.append(ex)
                out["prefixes"] += ex.prefixes
        else:
            exs = []
            for prefix in payload:
                ex = _mk(prefix=prefix, timeout_ms=ob.timeout_ms, deadline=deadline, cex_key=keyfn)
                ex.run(ob.body)
                exs.append(ex)
        st = core.Stats()
        for ex in exs:
            st.merge(ex.stats)
            for c in ex.cex:
                j = c.to_json()
                j["key"] = c.key
                out["cex"].append(j)
            for k, v in ex.cex_keys.items():
                out["cex_keys"][k] = out["cex_keys"].get(k, 0) + v
            out["inconclusive"] += ex.inconclusive[:5]
        out["stats"] = st.to_json()
        out["samples"] = st.samples
        out["wall_s"] = time.time() - t0
        # results cross a process boundary: anything that is not plain data (enum members, proxies, z3 handles in notes) is rendered as text
        for k in ("cex", "samples", "inconclusive"):
            out[k] = json.loads(json.dumps(out[k], default=str))
        return out
    except BaseException as e:  # noqa
        return {"error": f"{type(e).__name__}: {e}\n{traceback.format_exc()[-3000:]}", "wall_s": time.time() - t0}


# ---------------------------------------------------------------------------------------------- coordinator
def _src_hash(fn):
    try:
        src = inspect.getsource(fn)
        f = inspect.getsourcefile(fn) or ""
        return {"function": f"{getattr(fn, '__module__', '?')}.{getattr(fn, '__qualname__', getattr(fn, '__name__', '?'))}",
                "file": f.replace("/repo/", ""), "sha1": hashlib.sha1(src.encode()).hexdigest()[:12]}
    except Exception as e:  # noqa
        return {"function": repr(fn), "error": str(e)}


def load_known(prop_id):
    p = os.path.join(VERIF, "known_findings.json")
    if not os.path.exists(p):
        return {}
    d = json.load(open(p))
    out = {}
    for f in d.get("findings", []):
        if f.get("property") == prop_id and f.get("status") == "known":
            out[f["key"]] = f
    return out


def _chunks(lst, n):
    k = max(1, (len(lst) + n - 1) // n)
    return [lst[i:i + k] for i in range(0, len(lst), k)]


def run_property(prop_id, tier, modname, level="other", explanation="", assumptions=None, outside=None,
                 replay_path=None, only=None, exhaustive=False):
    t_start = time.time()
    seed = int(os.environ.get("VERIF_SEED", "0") or 0)
    mod = importlib.import_module(modname)
    obs = mod.obligations(tier)
    if only:
        obs = [o for o in obs if any(o.name.startswith(p) for p in only)]
    ctx = mp.get_context("fork")
    ncpu = int(os.environ.get("VERIF_JOBS", "0") or 0) or min(16, os.cpu_count() or 1)

    if replay_path:
        rp = json.load(open(replay_path))
        with ctx.Pool(1, maxtasksperchild=1) as pool:
            r = pool.apply(_job, ((modname, rp["obligation"], rp.get("tier", tier), "replay", rp["cex"]),))
        if r.get("error"):
            print("HARNESS-ERROR", r["error"])
            return 3
        print(f"replay {rp['obligation']}: reproduced={r['reproduced']} :: {r['desc']}")
        if r["reproduced"]:
            print(f"VIOLATION property={prop_id} replay={replay_path}")
            return 1
        return 0

    results: dict[str, dict] = {o.name: {"stats": {"paths": 0, "completed": 0, "aborted": 0, "queries": 0, "solver_s": 0.0, "reach": {}},
                                         "cex": [], "cex_keys": {}, "inconclusive": [], "errors": [], "jobs": 0, "wall_s": 0.0,
                                         "samples": [], "custom": None} for o in obs}

    import tempfile
    rundir = tempfile.mkdtemp(prefix="run-", dir=os.path.join(VERIF, "scratch") if os.path.isdir(os.path.join(VERIF, "scratch")) or not os.makedirs(os.path.join(VERIF, "scratch"), exist_ok=True) else None)
    _RUNDIR[0] = rundir
    os.environ["VERIF_RUNDIR"] = rundir
    known_now = set(load_known(prop_id))

    def absorb(name, r):
        R = results[name]
        R["jobs"] += 1
        if r.get("cex_keys") and any(k not in known_now and f"{name}:{k}" not in known_now for k in r["cex_keys"]):
            try:
                open(os.path.join(rundir, name + ".stop"), "w").close()      # later shards of this obligation return at once
            except OSError:
                pass
        R["wall_s"] += r.get("wall_s", 0.0)
        if r.get("error"):
            R["errors"].append(r["error"])
            return
        if "stats" not in r:   # custom
            R["custom"] = r
            return
        for k in ("paths", "completed", "aborted", "queries", "solver_s"):
            R["stats"][k] += r["stats"][k]
        for k, v in r["stats"]["reach"].items():
            R["stats"]["reach"][k] = R["stats"]["reach"].get(k, 0) + v
        R["cex"] += r["cex"]
        for k, v in r["cex_keys"].items():
            R["cex_keys"][k] = R["cex_keys"].get(k, 0) + v
        R["inconclusive"] += r["inconclusive"]
        for s in r.get("samples", []):
            if len(R["samples"]) < 3:
                R["samples"].append(s)

    pending = []
    with ctx.Pool(ncpu, maxtasksperchild=1) as pool:
        # biggest budgets first
        for ob in sorted(obs, key=lambda o: -o.budget_s):
            if ob.custom is not None:
                pending.append((ob, "custom", pool.apply_async(_job, ((modname, ob.name, tier, "custom", None),))))
            elif ob.shard_depth:
                d1 = min(SPLIT1, ob.shard_depth)
                pending.append((ob, "split" if d1 == ob.shard_depth else "split1",
                                pool.apply_async(_job, ((modname, ob.name, tier, "split", {"depth": d1}),))))
            else:
                pending.append((ob, "full", pool.apply_async(_job, ((modname, ob.name, tier, "full", [None]),))))
        while pending:
            nxt = []
            progressed = False
            for ob, mode, fut in pending:
                if not fut.ready():
                    nxt.append((ob, mode, fut))
                    continue
                progressed = True
                r = fut.get()
                absorb(ob.name, r)
                if mode == "split1" and not r.get("error"):
                    prefs = r["prefixes"]
                    for ch in _chunks(prefs, 2 * ncpu) if prefs else []:
                        nxt.append((ob, "split", pool.apply_async(_job, ((modname, ob.name, tier, "split", {"depth": ob.shard_depth, "prefixes": ch}),))))
                if mode == "split" and not r.get("error"):
                    prefs = r["prefixes"]
                    for ch in _chunks(prefs, 4 * ncpu) if prefs else []:
                        nxt.append((ob, "shard", pool.apply_async(_job, ((modname, ob.name, tier, "shard", ch),))))
            pending = nxt
            if not progressed:
                time.sleep(0.05)

        # ---------------------------------------------------------------- counterexamples -> concrete replay
        known = load_known(prop_id)
        violations = []
        known_hits = {}
        unreproduced = []
        os.makedirs(os.path.join(VERIF, "replays", prop_id), exist_ok=True)
        for ob in obs:
            R = results[ob.name]
            if R["custom"] is not None:
                for c in R["custom"].get("cex", []):
                    R["cex"].append(c)
            bykey: dict[str, list] = {}
            for c in R["cex"]:
                bykey.setdefault(c.get("key") or c["message"], []).append(c)
            R["classes"] = {}
            for key, lst in bykey.items():
                rep = None
                last_desc = ""
                for c in lst[:3]:
                    if c.get("pre_replayed"):
                        rr = {"reproduced": True, "desc": c["message"]}
                    else:
                        rr = pool.apply(_job, ((modname, ob.name, tier, "replay", c),))
                    if rr.get("error"):
                        R["errors"].append("replay: " + rr["error"])
                        continue
                    if rr["reproduced"]:
                        rep = (c, rr)
                        break
                    last_desc = str(rr.get("desc"))[:300]
                if rep is None:
                    try:
                        ud = os.path.join(VERIF, "scratch", "unreproduced")
                        os.makedirs(ud, exist_ok=True)
                        json.dump(lst[0], open(os.path.join(ud, f"{prop_id}-{ob.name}-{hashlib.sha1(key.encode()).hexdigest()[:8]}.json"), "w"), indent=1, default=str)
                    except Exception:
                        pass
                    unreproduced.append((ob.name, key, lst[0]["message"] + f" [replay said: {last_desc}]"))
                    R["classes"][key] = "not-reproduced"
                    continue
                c, rr = rep
                fullkey = f"{ob.name}:{key}"
                if key in known and fullkey not in known:
                    known[fullkey] = known[key]
                if fullkey in known:
                    known_hits[fullkey] = rr["desc"]
                    R["classes"][key] = "known-finding"
                    continue
                path = os.path.join(VERIF, "replays", prop_id, f"{ob.name}-{hashlib.sha1(key.encode()).hexdigest()[:10]}.json")
                json.dump({"property": prop_id, "obligation": ob.name, "tier": tier, "key": fullkey, "cex": c,
                           "concrete_result": rr["desc"]}, open(path, "w"), indent=1, default=str)
                violations.append((fullkey, path, rr["desc"]))
                R["classes"][key] = "violation"

    # ---------------------------------------------------------------- verdict
    errors = [(n, e) for n, R in results.items() for e in R["errors"]]
    inconcl = [(n, e) for n, R in results.items() for e in R["inconclusive"][:3]]
    vacuous = []
    for ob in obs:
        R = results[ob.name]
        if R["custom"] is not None:
            if R["custom"].get("inconclusive"):
                inconcl.append((ob.name, str(R["custom"]["inconclusive"])))
            continue
        if R["stats"]["completed"] == 0 and not R["errors"]:
            vacuous.append((ob.name, "no completed path"))
        for lab in ob.require_reach:
            if R["stats"]["reach"].get(lab, 0) == 0 and not R["errors"]:
                vacuous.append((ob.name, f"reach label {lab} never hit"))

    n_obl = len(obs)
    discharged = 0
    for ob in obs:
        R = results[ob.name]
        bad = R["errors"] or R["inconclusive"] or any(v != "known-finding" for v in R.get("classes", {}).values())
        if R["custom"] is not None and (R["custom"].get("inconclusive") or R["custom"].get("failed")):
            bad = True
        if not bad and not any(n == ob.name for n, _ in vacuous):
            discharged += 1

    wall = time.time() - t_start
    tot_paths = sum(R["stats"]["paths"] for R in results.values())
    tot_completed = sum(R["stats"]["completed"] for R in results.values())
    tot_q = sum(R["stats"]["queries"] for R in results.values())
    tot_solver = sum(R["stats"]["solver_s"] for R in results.values())
    for R in results.values():
        if R["custom"]:
            tot_q += R["custom"].get("queries", 0)
            tot_solver += R["custom"].get("solver_s", 0.0)
    code_list = []
    seen = set()
    for ob in obs:
        for fn in ob.code:
            h = _src_hash(fn)
            if h["function"] not in seen:
                seen.add(h["function"])
                code_list.append(h)
    samples = []
    for ob in obs:
        R = results[ob.name]
        for s in R["samples"][:1]:
            samples.append({"obligation": ob.name, **s})
        if R["custom"] and R["custom"].get("samples"):
            samples.append({"obligation": ob.name, "samples": R["custom"]["samples"][:2]})
    if not samples:
        samples = [{"obligation": ob.name, "describe": ob.describe} for ob in obs[:3]]
    coverage = {
        "explanation": explanation,
        "obligations": n_obl,
        "discharged": discharged,
        "evaluations": max(1, tot_paths),
        "distinct_nontrivial": tot_completed,
        "rule": "one evaluation = one explored path of a harness through the real code (distinct decision sequence); "
                "non-trivial = the path is feasible (solver-checked), ran to the end of the harness and its "
                "assertion was handed to the solver; infeasible/assumption-excluded paths are not counted",
        "samples": samples[:8],
        "solver_queries": tot_q,
        "solver_time_s": round(tot_solver, 2),
        "functions_encoded": code_list,
        "per_obligation": {ob.name: {"describe": ob.describe, "bounds": ob.bounds, **results[ob.name]["stats"],
                                     "jobs": results[ob.name]["jobs"], "cpu_s": round(results[ob.name]["wall_s"], 2),
                                     "counterexample_classes": results[ob.name].get("classes", {}),
                                     **({"custom": {k: v for k, v in results[ob.name]["custom"].items() if k not in ("cex", "samples")}}
                                        if results[ob.name]["custom"] else {})}
                           for ob in obs},
        "outside_the_claim": outside or [],
        "known_findings_rederived": sorted(known_hits),
        "exhaustive": bool(exhaustive),
    }
    if level == "model_checking":
        st = sum((R["custom"] or {}).get("states", 0) for R in results.values())
        tr = sum((R["custom"] or {}).get("transitions", 0) for R in results.values())
        tv = sum((R["custom"] or {}).get("traces_validated_against_impl", 0) for R in results.values())
        if st > 0 and tr > 0:
            coverage.update(states=st, transitions=tr, traces_validated_against_impl=tv)
    ev = {"property_id": prop_id, "tier": tier, "seed": seed, "level": level, "coverage": coverage,
          "assumptions": assumptions or [], "wall_s": round(wall, 2), "violations": len(violations)}
    # a partial run (--only) or a development run against a scratch copy (VERIF_NO_EVIDENCE=1) must not overwrite the evidence of the
    # last full run against /repo
    evdir = os.path.join(VERIF, "scratch", "evidence-partial") if (only or os.environ.get("VERIF_NO_EVIDENCE")) else os.path.join(VERIF, "evidence")
    os.makedirs(evdir, exist_ok=True)
    json.dump(ev, open(os.path.join(evdir, f"{prop_id}.json"), "w"), indent=1, default=str)

    print(f"[{prop_id} {tier}] obligations={n_obl} discharged={discharged} paths={tot_paths} completed={tot_completed} "
          f"queries={tot_q} solver={tot_solver:.1f}s wall={wall:.1f}s")
    for ob in obs:
        R = results[ob.name]
        extra = ""
        if R["custom"]:
            extra = " " + json.dumps({k: v for k, v in R["custom"].items() if k in ("states", "transitions", "queries", "result", "depth")})
        print(f"  - {ob.name}: paths={R['stats']['paths']} completed={R['stats']['completed']} queries={R['stats']['queries']} "
              f"cpu={R['wall_s']:.1f}s reach={R['stats']['reach']} classes={R.get('classes', {})}{extra}")
    for k, d in sorted(known_hits.items()):
        print(f"KNOWN-FINDING: property={prop_id} {k} :: {known[k].get('what', '')} [{d[:120]}]")
    for k, f in known.items():
        if k not in known_hits and not any(h.endswith(":" + k) for h in known_hits):
            print(f"note: listed known finding not re-derived in this tier: {k}")
    # a violation has been replayed with ordinary values against the real code: it stands whatever else went wrong in other obligations
    if violations:
        for k, path, desc in violations:
            print(f"  violation class {k}: {desc}")
            print(f"VIOLATION property={prop_id} replay={path}")
        for n, e in errors[:3]:
            print(f"note: harness error in {n}: {str(e).splitlines()[0][:200]}")
        return 1
    if errors:
        for n, e in errors[:5]:
            print(f"HARNESS-ERROR in {n}: {e}")
        return 3
    if unreproduced:
        for n, k, m in unreproduced[:5]:
            print(f"INCONCLUSIVE: candidate counterexample did not replay concretely: {n}: {k}: {m}")
        return 2
    if inconcl:
        for n, e in inconcl[:5]:
            print(f"INCONCLUSIVE in {n}: {e}")
        return 2
    if vacuous:
        for n, e in vacuous:
            print(f"HARNESS-ERROR vacuous obligation {n}: {e}")
        return 3
    return 0
