import argparse
import importlib
import os
import sys


def main():
    ap = argparse.ArgumentParser()
    ap.add_argument("prop")
    ap.add_argument("--tier", default=os.environ.get("VERIF_TIER", "quick"), choices=["quick", "thorough"])
    ap.add_argument("--replay", default=None)
    ap.add_argument("--only", nargs="*", default=None)
    a = ap.parse_args()
    sys.path.insert(0, os.path.dirname(os.path.dirname(os.path.abspath(__file__))))
    from symex import runner
    modname = f"harness.{a.prop.lower()}"
    mod = importlib.import_module(modname)
    meta = mod.META
    rc = runner.run_property(a.prop, a.tier, modname, level=meta.get("level", "other"),
                             explanation=meta["explanation"], assumptions=meta.get("assumptions"),
                             outside=meta.get("outside"), replay_path=a.replay, only=a.only,
                             exhaustive=meta.get("exhaustive", False))
    sys.stdout.flush()
    runner.cleanup()
    os._exit(rc)


if __name__ == "__main__":
    main()
