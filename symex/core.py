"""E1: a small z3-backed dynamic symbolic executor for Python (see DESIGN.md §1.2).

A *body* is a Python callable that builds symbolic inputs through the current explorer (``sx.cur()``),
calls real optuna code with them and returns the property as a bool / SymBool / z3 BoolRef (or raises
AssertionError, which is the property ``False`` on that path).  ``Explorer.run`` enumerates every feasible
path of the body depth-first with deterministic replay of the decision prefix.  On each completed path the
negated property is handed to z3 under the path condition.

Two kinds of forks exist:
  * ``decide(cond)``  – a branch on a z3 condition; both sides are checked for feasibility by the solver;
  * ``choose(n)``     – a pure case split over a finite structural domain (which op, which shape, which
                        schedule step); always feasible, recorded in the trace.

The same body runs in *concrete mode* (``ConcreteRun``) to replay a counterexample with ordinary Python
values against the real code (shims are transparent on ordinary values).
"""
from __future__ import annotations

import fractions
import hashlib
import time
import traceback
from typing import Any, Callable

import z3


class PathAbort(BaseException):
    """The current path is infeasible / excluded by an assumption (not an error)."""


class Cutoff(BaseException):
    """Shard splitting: the prefix depth has been reached."""


class HarnessError(Exception):
    """The machinery itself is broken (non-determinism, unbounded concretisation, stub misuse)."""


class Inconclusive(Exception):
    """Solver said unknown / budget exhausted."""


_cur: "Explorer | ConcreteRun | None" = None


def cur():
    if _cur is None:
        raise HarnessError("no active explorer")
    return _cur


def active() -> bool:
    return _cur is not None


def _set_cur(x):
    global _cur
    _cur = x


class Counterexample:
    def __init__(self, values, choices, notes, message, kind):
        self.values = values      # name -> python value (int / Fraction-as-str / bool)
        self.choices = choices    # list of (label, value)
        self.notes = notes        # harness notes (dict)
        self.message = message
        self.kind = kind          # 'assert' | 'exception' | 'property'

    def to_json(self):
        return {
            "values": self.values,
            "choices": self.choices,
            "notes": self.notes,
            "message": self.message,
            "kind": self.kind,
        }


def _val_to_py(v):
    if z3.is_int_value(v):
        return v.as_long()
    if z3.is_rational_value(v):
        f = v.as_fraction()
        return {"num": f.numerator, "den": f.denominator}
    if z3.is_true(v):
        return True
    if z3.is_false(v):
        return False
    if z3.is_algebraic_value(v):
        f = v.approx(20).as_fraction()
        return {"num": f.numerator, "den": f.denominator, "approx": True}
    return str(v)


class Stats:
    def __init__(self):
        self.paths = 0
        self.completed = 0
        self.aborted = 0
        self.queries = 0
        self.solver_s = 0.0
        self.cutoffs = 0
        self.reach: dict[str, int] = {}
        self.samples: list = []

    def merge(self, o: "Stats"):
        self.paths += o.paths
        self.completed += o.completed
        self.aborted += o.aborted
        self.queries += o.queries
        self.solver_s += o.solver_s
        self.cutoffs += o.cutoffs
        for k, v in o.reach.items():
            self.reach[k] = self.reach.get(k, 0) + v
        for s in o.samples:
            if len(self.samples) < 6:
                self.samples.append(s)

    def to_json(self):
        return dict(paths=self.paths, completed=self.completed, aborted=self.aborted, queries=self.queries,
                    solver_s=round(self.solver_s, 3), reach=self.reach)


class Explorer:
    concrete = False

    def __init__(self, prefix=None, split_depth=None, timeout_ms=60000, deadline=None, max_cex=40,
                 cex_key: Callable[[Counterexample], str] | None = None):
        # plan entries: [idx, options, tag]
        self.plan: list[list] = []
        if prefix:
            for (val, tag) in prefix:
                self.plan.append([0, [val], tag])
        self.n_prefix = len(self.plan)
        self.split_depth = split_depth
        self.timeout_ms = timeout_ms
        self.deadline = deadline
        self.stats = Stats()
        self.cex: list[Counterexample] = []
        self.cex_keys: dict[str, int] = {}
        self.max_cex = max_cex
        self.cex_key = cex_key
        self.known_keys: set = set()           # keys of listed known findings: they never count towards the early stop
        self.stop_after_unknown_cex = 200      # a tree this broken needs no further exploration: the violation is reported anyway
        self.n_unknown_cex = 0
        self.stopped_early = False
        self.prefixes: list[list] = []
        self.inconclusive: list[str] = []
        self.solver: z3.Solver = None  # type: ignore
        self.model = None
        self.vars: dict[str, Any] = {}
        self.choices: list = []
        self.notes: dict = {}
        self.pos = 0
        self._fresh = 0

    # ------------------------------------------------------------------ solver helpers
    def _check(self, *extra):
        t = time.time()
        self.solver.push()
        try:
            for e in extra:
                self.solver.add(e)
            r = self.solver.check()
            m = self.solver.model() if r == z3.sat else None
        finally:
            self.solver.pop()
        self.stats.queries += 1
        self.stats.solver_s += time.time() - t
        if r == z3.unknown:
            raise Inconclusive("solver unknown: " + self.solver.reason_unknown())
        return r == z3.sat, m

    def _model_says(self, cond):
        if self.model is None:
            return None
        try:
            v = self.model.eval(cond, model_completion=True)
        except z3.Z3Exception:
            return None
        if z3.is_true(v):
            return True
        if z3.is_false(v):
            return False
        return None

    # ------------------------------------------------------------------ variables
    def fresh_name(self, base):
        self._fresh += 1
        return f"{base}!{self._fresh}"

    def declare(self, name, var):
        self.vars[name] = var
        return var

    def note(self, key, value):
        self.notes[key] = value

    def reach(self, label, n=1):
        self.stats.reach[label] = self.stats.reach.get(label, 0) + n

    # ------------------------------------------------------------------ forks
    def _next(self, tag, options_fn):
        if self.pos < len(self.plan):
            e = self.plan[self.pos]
            if e[2] != tag:
                raise HarnessError(f"non-deterministic replay at depth {self.pos}: {e[2]} vs {tag} :: {getattr(self, '_last_cond', None)}")
            self.pos += 1
            return e[1][e[0]], True
        if self.split_depth is not None and self.pos >= self.split_depth:
            raise Cutoff()
        if self.deadline is not None and time.time() > self.deadline:
            raise Inconclusive("time budget exhausted")
        opts = options_fn()
        if not opts:
            raise PathAbort()
        self.plan.append([0, opts, tag])
        self.pos += 1
        return opts[0], False

    def decide(self, cond) -> bool:
        cond = z3.simplify(cond)
        if z3.is_true(cond):
            return True
        if z3.is_false(cond):
            return False
        models = {}

        def options():
            opts = []
            ms = self._model_says(cond)
            for side in (True, False):
                if ms is side:
                    opts.append(side)
                    models[side] = self.model
                    continue
                ok, m = self._check(cond if side else z3.Not(cond))
                if ok:
                    opts.append(side)
                    models[side] = m
            return opts

        self._last_cond = cond
        d, replayed = self._next(("d", cond.hash()), options)
        self.solver.add(cond if d else z3.Not(cond))
        if replayed:
            self.model = None
        else:
            self.model = models.get(d)
        return d

    def concretize(self, e, limit=64):
        """fork over every feasible value of the integer term `e` (finite domain required); replay-deterministic"""
        e = z3.simplify(e)
        if z3.is_int_value(e):
            return e.as_long()

        def options():
            vals = []
            self.solver.push()
            try:
                while True:
                    t = time.time()
                    r = self.solver.check()
                    self.stats.queries += 1
                    self.stats.solver_s += time.time() - t
                    if r == z3.unknown:
                        raise Inconclusive("solver unknown in concretize")
                    if r != z3.sat:
                        break
                    v = self.solver.model().eval(e, model_completion=True).as_long()
                    vals.append(v)
                    if len(vals) > limit:
                        raise HarnessError(f"unbounded concretisation of {e}")
                    self.solver.add(e != v)
            finally:
                self.solver.pop()
            return sorted(vals)
        v, _ = self._next(("z", e.hash()), options)
        self.solver.add(e == v)
        self.model = None
        return v

    def choose(self, n, label="c") -> int:
        if isinstance(n, int):
            opts = list(range(n))
        else:
            opts = list(n)
        v, _ = self._next(("c", label, len(opts)), lambda: list(range(len(opts))))
        self.choices.append((label, opts[v] if _choice_by_value(n, opts) else v))
        return opts[v]

    def assume(self, cond):
        from .proxies import SymBool
        if isinstance(cond, SymBool):
            cond = cond.e
        if isinstance(cond, bool):
            if not cond:
                raise PathAbort()
            return
        cond = z3.simplify(cond)
        if z3.is_true(cond):
            return
        if z3.is_false(cond):
            raise PathAbort()
        ms = self._model_says(cond)
        self.solver.add(cond)
        if ms is True:
            return
        ok, m = self._check()
        if not ok:
            raise PathAbort()
        self.model = m

    def add(self, cond):
        """Add a constraint that is satisfiable by construction (fresh-variable definitions)."""
        self.solver.add(cond)
        self.model = None

    def abort(self):
        raise PathAbort()

    # ------------------------------------------------------------------ running
    def _snapshot_cex(self, model, message, kind):
        vals = {}
        for name, var in self.vars.items():
            try:
                vals[name] = _val_to_py(model.eval(var, model_completion=True))
            except Exception:
                vals[name] = None
        return Counterexample(vals, list(self.choices), dict(self.notes), message, kind)

    def _nice_model(self, neg):
        """Try to get a model whose reals are small dyadic rationals (exact doubles)."""
        reals = [v for v in self.vars.values() if z3.is_real(v)]
        if not reals:
            return None
        # (k, bound): every real is a multiple of 2^-k with |v| <= bound; the last two stages are for violations that need values or
        # differences below one ulp of 1 (m * 2^-k with m < 2^53 is an exact double)
        for k, bound in ((4, 64), (16, 2 ** 20), (60, z3.Q(1, 2 ** 8)), (110, z3.Q(1, 2 ** 58))):
            cons = [z3.IsInt(v * (2 ** k)) for v in reals] + [z3.And(v <= bound, v >= -bound) for v in reals]
            self.solver.push()
            try:
                self.solver.add(neg)
                self.solver.add(*cons)
                self.solver.set("timeout", 5000)
                r = self.solver.check()
                if r == z3.sat:
                    return self.solver.model()
            finally:
                self.solver.set("timeout", self.timeout_ms)
                self.solver.pop()
        return None

    def _record_cex(self, cex):
        key = self.cex_key(cex) if self.cex_key else cex.message
        n = self.cex_keys.get(key, 0)
        self.cex_keys[key] = n + 1
        if key not in self.known_keys:
            self.n_unknown_cex += 1
        if n < 3 and len(self.cex) < self.max_cex:
            cex.key = key
            self.cex.append(cex)

    def _finish_path(self, prop):
        from .proxies import SymBool
        if isinstance(prop, SymBool):
            prop = prop.e
        if prop is None or prop is True:
            return
        if prop is False:
            prop = z3.BoolVal(False)
        prop = z3.simplify(prop)
        if z3.is_true(prop):
            return
        neg = z3.Not(prop)
        ok, m = self._check(neg)
        if ok:
            nice = self._nice_model(neg)
            self._record_cex(self._snapshot_cex(nice or m, "property formula falsifiable: " + str(prop)[:300], "property"))

    def _path_model(self):
        if self.model is not None:
            return self.model
        ok, m = self._check()
        if not ok:
            raise PathAbort()
        return m

    def run(self, body):
        _set_cur(self)
        try:
            while True:
                self.solver = z3.Solver()
                self.solver.set("timeout", self.timeout_ms)
                self.model = None
                self.vars = {}
                self.choices = []
                self.notes = {}
                self.pos = 0
                self._fresh = 0
                self.stats.paths += 1
                try:
                    try:
                        prop = body()
                    except Exception as e0:
                        # an explorer control exception may have been replaced by an exception raised in a finally-block of the
                        # code under test while it was unwinding: recover it from the context chain
                        ctrl = _masked_control(e0)
                        if ctrl is not None:
                            raise ctrl from None
                        raise
                    self.stats.completed += 1
                    self._finish_path(prop)
                    if len(self.stats.samples) < 3:
                        self.stats.samples.append({"choices": [list(c) for c in self.choices][:40],
                                                   "notes": _jsonable(self.notes),
                                                   "path_condition": [str(a)[:160] for a in self.solver.assertions()][:12]})
                except PathAbort:
                    self.stats.aborted += 1
                except Cutoff:
                    self.stats.cutoffs += 1
                    self.prefixes.append([(e[1][e[0]], e[2]) for e in self.plan])
                except Inconclusive as e:
                    self.inconclusive.append(str(e))
                    if self.deadline is not None and time.time() > self.deadline:
                        return
                except AssertionError as e:
                    self.stats.completed += 1
                    try:
                        m = self._path_model()
                        tb = traceback.extract_tb(e.__traceback__)
                        where = f"{tb[-1].filename.split('/')[-1]}:{tb[-1].lineno}" if tb else ""
                        self._record_cex(self._snapshot_cex(m, f"assertion failed at {where}: {e}", "assert"))
                    except PathAbort:
                        self.stats.aborted += 1
                    except Inconclusive as e2:
                        self.inconclusive.append(str(e2))
                except HarnessError:
                    raise
                except Exception as e:  # unexpected exception escaping real code on this path
                    self.stats.completed += 1
                    try:
                        m = self._path_model()
                        tb = traceback.extract_tb(e.__traceback__)
                        where = f"{tb[-1].filename.split('/')[-1]}:{tb[-1].lineno}" if tb else ""
                        self._record_cex(self._snapshot_cex(
                            m, f"unexpected {type(e).__name__} at {where}: {str(e)[:200]}", "exception"))
                    except PathAbort:
                        self.stats.aborted += 1
                    except Inconclusive as e2:
                        self.inconclusive.append(str(e2))
                if self.n_unknown_cex >= self.stop_after_unknown_cex:
                    self.stopped_early = True
                    self.inconclusive.append(f"exploration stopped after {self.n_unknown_cex} counterexamples")
                    return
                # backtrack
                while len(self.plan) > self.n_prefix and self.plan[-1][0] + 1 >= len(self.plan[-1][1]):
                    self.plan.pop()
                if len(self.plan) <= self.n_prefix:
                    return
                self.plan[-1][0] += 1
        finally:
            _set_cur(None)


def _masked_control(e):
    seen = 0
    c = e.__context__
    while c is not None and seen < 20:
        if isinstance(c, (PathAbort, Cutoff, Inconclusive)):
            return c
        c = c.__context__
        seen += 1
    return None


def _jsonable(x, depth=0):
    if depth > 6:
        return str(x)
    if isinstance(x, (str, int, bool)) or x is None:
        return x
    if isinstance(x, float):
        return x if x == x and abs(x) != float("inf") else repr(x)
    if isinstance(x, fractions.Fraction):
        return str(x)
    if isinstance(x, dict):
        return {str(k): _jsonable(v, depth + 1) for k, v in x.items()}
    if isinstance(x, (list, tuple, set)):
        return [_jsonable(v, depth + 1) for v in x]
    return str(x)


class ReplayMismatch(Exception):
    pass


def _choice_by_value(n, opts):
    """a recorded choice is the option itself when every option is a plain str or a plain int (readable counterexamples), its index
    otherwise (None / bool / mixed / duplicate options would make a value ambiguous)"""
    if isinstance(n, int):
        return True
    return bool(opts) and len(set(map(repr, opts))) == len(opts) and (all(type(o) is str for o in opts) or all(type(o) is int for o in opts))


class ConcreteRun:
    """Runs a body with the concrete values of a counterexample (ordinary ints/floats)."""
    concrete = True

    def __init__(self, cex_json):
        self.values = cex_json["values"]
        self.choice_list = list(cex_json["choices"])
        self.cpos = 0
        self.notes = {}
        self.stats = Stats()
        self.inexact = False

    def value(self, name, kind):
        if name not in self.values:
            raise ReplayMismatch(f"variable {name} not in counterexample")
        v = self.values[name]
        if kind == "int":
            return int(v)
        if kind == "bool":
            return bool(v)
        if kind == "real":
            if isinstance(v, dict):
                fr = fractions.Fraction(v["num"], v["den"])
                f = float(fr)
                if fractions.Fraction(f) != fr:
                    self.inexact = True
                return f
            return float(v)
        raise HarnessError(kind)

    def choose(self, n, label="c"):
        opts = list(range(n)) if isinstance(n, int) else list(n)
        if self.cpos >= len(self.choice_list):
            raise ReplayMismatch("ran out of recorded choices")
        lab, v = self.choice_list[self.cpos]
        self.cpos += 1
        if lab != label:
            raise ReplayMismatch(f"choice label {lab} vs {label}")
        if _choice_by_value(n, opts):
            return opts[opts.index(v)]
        return opts[v]

    def assume(self, cond):
        if not cond:
            raise ReplayMismatch("assumption false under concrete values")

    def add(self, cond):
        pass

    def abort(self):
        raise ReplayMismatch("path aborted under concrete values")

    def note(self, key, value):
        self.notes[key] = value

    def reach(self, label, n=1):
        pass

    def decide(self, cond):
        raise HarnessError("decide() called in concrete mode")

    def run(self, body):
        """returns (reproduced: bool, description)"""
        _set_cur(self)
        try:
            try:
                prop = body()
            except ReplayMismatch as e:
                return False, f"replay mismatch: {e}"
            except AssertionError as e:
                tb = traceback.extract_tb(e.__traceback__)
                where = f"{tb[-1].filename.split('/')[-1]}:{tb[-1].lineno}" if tb else ""
                return True, f"assertion failed at {where}: {e}"
            except HarnessError:
                raise
            except Exception as e:
                tb = traceback.extract_tb(e.__traceback__)
                where = f"{tb[-1].filename.split('/')[-1]}:{tb[-1].lineno}" if tb else ""
                if tb and any(tb[-1].filename.startswith(p) for p in ("/verif/harness", "/verif/symex", "/verif/stubs")):
                    return False, f"replay mismatch: exception raised by the harness itself at {where}: {type(e).__name__}: {str(e)[:120]}"
                return True, f"unexpected {type(e).__name__} at {where}: {str(e)[:200]}"
            if prop is None or prop is True:
                return False, "property holds concretely"
            if hasattr(prop, "e"):
                prop = prop.e
            if isinstance(prop, z3.BoolRef):
                prop = z3.simplify(prop)
                if z3.is_true(prop):
                    return False, "property holds concretely"
                if z3.is_false(prop):
                    return True, "property false concretely"
                raise HarnessError("non-ground property in concrete mode: " + str(prop)[:200])
            if not prop:
                return True, "property false concretely"
            return False, "property holds concretely"
        finally:
            _set_cur(None)


def digest(obj) -> str:
    import json
    return hashlib.sha1(json.dumps(obj, sort_keys=True, default=str).encode()).hexdigest()[:12]
