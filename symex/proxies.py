"""Proxy values whose operators build z3 terms (see DESIGN.md §1.2)."""
from __future__ import annotations

import builtins
import fractions
import math
import numbers

import numpy as np
import z3

from . import core
from .core import HarnessError, cur


# --------------------------------------------------------------------------- Bool
class SymBool:
    __slots__ = ("e",)

    def __init__(self, e):
        self.e = e

    def __bool__(self):
        return cur().decide(self.e)

    def __and__(self, o):
        return SymBool(z3.And(self.e, tob(o)))

    def __or__(self, o):
        return SymBool(z3.Or(self.e, tob(o)))

    def __invert__(self):
        return SymBool(z3.Not(self.e))

    __rand__ = __and__
    __ror__ = __or__

    def __eq__(self, o):
        if isinstance(o, (SymBool, bool)):
            return SymBool(self.e == tob(o))
        return False

    def __ne__(self, o):
        if isinstance(o, (SymBool, bool)):
            return SymBool(self.e != tob(o))
        return True

    def __hash__(self):
        return hash(bool(self))

    def __repr__(self):
        return f"B({self.e})"

    def __deepcopy__(self, memo):
        return self

    def __copy__(self):
        return self


def tob(o):
    if isinstance(o, SymBool):
        return o.e
    if isinstance(o, z3.BoolRef):
        return o
    if isinstance(o, (bool, np.bool_)):
        return z3.BoolVal(bool(o))
    raise TypeError(f"not a boolean: {type(o)}")


def is_sym(x):
    return isinstance(x, (SymInt, SymReal, SymBool))


def is_symnum(x):
    return isinstance(x, (SymInt, SymReal))


def rv(x):
    """exact z3 real numeral of a concrete python number"""
    if isinstance(x, bool):
        return z3.RealVal(int(x))
    if isinstance(x, (int, np.integer)):
        return z3.RealVal(int(x))
    if isinstance(x, (float, np.floating)):
        x = float(x)
        if x != x or x in (float("inf"), float("-inf")):
            raise _NonFinite(x)
        f = fractions.Fraction(x)
        return z3.RealVal(f"{f.numerator}/{f.denominator}")
    if isinstance(x, fractions.Fraction):
        return z3.RealVal(f"{x.numerator}/{x.denominator}")
    raise TypeError(type(x))


def sx_is_concrete_number(o):
    return isinstance(o, (int, float, np.integer, np.floating, fractions.Fraction)) and not isinstance(o, bool)


class _NonFinite(Exception):
    def __init__(self, x):
        self.x = x


def to_real(o):
    if isinstance(o, SymReal):
        return o.e
    if isinstance(o, SymInt):
        return z3.ToReal(o.e)
    return rv(o)


def to_int(o):
    if isinstance(o, SymInt):
        return o.e
    if isinstance(o, (bool, np.bool_)):
        return z3.IntVal(int(o))
    if isinstance(o, (int, np.integer)):
        return z3.IntVal(int(o))
    return None


# --------------------------------------------------------------------------- Real
def _cmp_nonfinite(op, x):
    """result of  finite_sym <op> x  for x in {inf, -inf, nan}"""
    if x != x:
        return op == "ne"
    if x > 0:
        return op in ("lt", "le", "ne")
    return op in ("gt", "ge", "ne")


def _real_cmp(op):
    zop = {"lt": lambda a, b: a < b, "le": lambda a, b: a <= b, "gt": lambda a, b: a > b,
           "ge": lambda a, b: a >= b, "eq": lambda a, b: a == b, "ne": lambda a, b: a != b}[op]

    def f(s, o):
        if isinstance(o, np.ndarray):
            return NotImplemented
        try:
            b = to_real(o)
        except _NonFinite as nf:
            return _cmp_nonfinite(op, nf.x)
        except TypeError:
            if op == "eq":
                return False
            if op == "ne":
                return True
            return NotImplemented
        return SymBool(zop(s.e, b))
    return f


def _real_bin(zop, rev=False, nonfinite=None):
    def f(s, o):
        if isinstance(o, np.ndarray):
            return NotImplemented
        try:
            b = to_real(o)
        except _NonFinite as nf:
            if nonfinite is None:
                raise HarnessError("arithmetic between a symbolic finite real and inf/nan")
            return nonfinite(s, nf.x, rev)
        except TypeError:
            return NotImplemented
        a = s.e
        if rev:
            a, b = b, a
        return SymReal(zop(a, b))
    return f


def _addsub_nonfinite(sign):
    def f(s, x, rev):
        # finite + inf = inf ; finite - inf = -inf ; inf - finite = inf
        if x != x:
            return x
        if sign == 1 or rev:
            return x
        return -x
    return f


def _mul_nonfinite(s, x, rev):
    if x != x:
        return x
    if s > 0:
        return x
    if s < 0:
        return -x
    return float("nan")


def _div_nonfinite(s, x, rev):
    if x != x:
        return x
    if not rev:          # finite / inf
        return 0.0
    if s > 0:            # inf / finite
        return x
    if s < 0:
        return -x
    raise ZeroDivisionError("float division by zero")


class SymReal:
    """A finite real number (z3 Real). Exact for order/selection logic on doubles."""
    __slots__ = ("e",)

    def __init__(self, e):
        self.e = e

    __add__ = _real_bin(lambda a, b: a + b, nonfinite=_addsub_nonfinite(1))
    __radd__ = _real_bin(lambda a, b: a + b, True, nonfinite=_addsub_nonfinite(1))
    __sub__ = _real_bin(lambda a, b: a - b, nonfinite=_addsub_nonfinite(-1))
    __rsub__ = _real_bin(lambda a, b: a - b, True, nonfinite=_addsub_nonfinite(-1))
    __mul__ = _real_bin(lambda a, b: a * b, nonfinite=_mul_nonfinite)
    __rmul__ = _real_bin(lambda a, b: a * b, True, nonfinite=_mul_nonfinite)
    __truediv__ = _real_bin(lambda a, b: a / b, nonfinite=_div_nonfinite)
    __rtruediv__ = _real_bin(lambda a, b: a / b, True, nonfinite=_div_nonfinite)
    __lt__ = _real_cmp("lt")
    __le__ = _real_cmp("le")
    __gt__ = _real_cmp("gt")
    __ge__ = _real_cmp("ge")
    __eq__ = _real_cmp("eq")
    __ne__ = _real_cmp("ne")

    def __neg__(self):
        return SymReal(-self.e)

    def __pos__(self):
        return self

    def __abs__(self):
        return SymReal(z3.If(self.e >= 0, self.e, -self.e))

    def __floordiv__(self, o):
        """floor division by a concrete positive number (exact over the reals)"""
        if sx_is_concrete_number(o) and o > 0:
            return SymReal(z3.ToReal(z3.ToInt(self.e / rv(o))))
        raise HarnessError("SymReal // non-constant")

    def __mod__(self, o):
        if sx_is_concrete_number(o) and o > 0:
            q = z3.ToReal(z3.ToInt(self.e / rv(o)))
            return SymReal(self.e - rv(o) * q)
        raise HarnessError("SymReal % non-constant")

    def __hash__(self):
        return id(self)

    def __repr__(self):
        return f"R({self.e})"

    def __deepcopy__(self, memo):
        return self

    def __copy__(self):
        return self

    def __floor__(self):
        return SymInt(z3.ToInt(self.e))

    def __ceil__(self):
        return SymInt(-z3.ToInt(-self.e))

    def __trunc__(self):
        return SymInt(z3.If(self.e >= 0, z3.ToInt(self.e), -z3.ToInt(-self.e)))

    def __round__(self, ndigits=None):
        if ndigits is not None:
            raise HarnessError("round(x, ndigits) on a symbolic real")
        fl = z3.ToInt(self.e + z3.RealVal("1/2"))
        tie = z3.ToReal(fl) == self.e + z3.RealVal("1/2")
        return SymInt(z3.If(z3.And(tie, fl % 2 != 0), fl - 1, fl))

    def is_integer(self):
        return SymBool(z3.IsInt(self.e))

    def __float__(self):
        raise HarnessError("float() reached a symbolic real: shim `float` in the module under test")

    def __int__(self):
        raise HarnessError("int() reached a symbolic real: shim `int` in the module under test")

    def __index__(self):
        raise HarnessError("symbolic real used as index")

    def __bool__(self):
        return cur().decide(self.e != 0)


# --------------------------------------------------------------------------- Int
def _int_cmp(op):
    zop = {"lt": lambda a, b: a < b, "le": lambda a, b: a <= b, "gt": lambda a, b: a > b,
           "ge": lambda a, b: a >= b, "eq": lambda a, b: a == b, "ne": lambda a, b: a != b}[op]

    def f(s, o):
        if isinstance(o, np.ndarray):
            return NotImplemented
        z = to_int(o)
        if z is not None:
            return SymBool(zop(s.e, z))
        if isinstance(o, SymReal):
            return SymBool(zop(z3.ToReal(s.e), o.e))
        if isinstance(o, (float, np.floating)):
            try:
                return SymBool(zop(z3.ToReal(s.e), rv(o)))
            except _NonFinite as nf:
                return _cmp_nonfinite(op, nf.x)
        if op == "eq":
            return False
        if op == "ne":
            return True
        return NotImplemented
    return f


def _floordiv(a, b):
    """python floor division on z3 ints (b concrete non-zero or symbolic)"""
    if z3.is_int_value(b):
        bv = b.as_long()
        if bv > 0:
            return a / b
        if bv < 0:
            return (-a) / z3.IntVal(-bv)
        raise ZeroDivisionError
    return z3.If(b > 0, a / b, (-a) / (-b))


def _int_bin(kind, rev=False):
    def f(s, o):
        if isinstance(o, np.ndarray):
            return NotImplemented
        z = to_int(o)
        if z is None:
            if isinstance(o, (SymReal, float, np.floating)):
                me = SymReal(z3.ToReal(s.e))
                name = {"add": "__add__", "sub": "__sub__", "mul": "__mul__", "truediv": "__truediv__"}.get(kind)
                if name is None:
                    raise HarnessError(f"{kind} between symbolic int and real")
                if rev:
                    name = name.replace("__", "__r", 1)
                return getattr(me, name)(o)
            return NotImplemented
        a, b = s.e, z
        if rev:
            a, b = b, a
        if kind == "add":
            return SymInt(a + b)
        if kind == "sub":
            return SymInt(a - b)
        if kind == "mul":
            return SymInt(a * b)
        if kind == "floordiv":
            if not z3.is_int_value(b):
                cur().assume(b != 0)
            return SymInt(_floordiv(a, b))
        if kind == "mod":
            if not z3.is_int_value(b):
                cur().assume(b != 0)
            return SymInt(a - b * _floordiv(a, b))
        if kind == "truediv":
            return SymReal(z3.ToReal(a) / z3.ToReal(b))
        raise HarnessError(kind)
    return f


class SymInt:
    """A mathematical integer (z3 Int). Concretised by solver-checked forking when it must cross into C."""
    __slots__ = ("e",)

    def __init__(self, e):
        self.e = e

    __add__ = _int_bin("add")
    __radd__ = _int_bin("add", True)
    __sub__ = _int_bin("sub")
    __rsub__ = _int_bin("sub", True)
    __mul__ = _int_bin("mul")
    __rmul__ = _int_bin("mul", True)
    __floordiv__ = _int_bin("floordiv")
    __rfloordiv__ = _int_bin("floordiv", True)
    __mod__ = _int_bin("mod")
    __rmod__ = _int_bin("mod", True)

    def __divmod__(self, o):
        q = self.__floordiv__(o)
        return NotImplemented if q is NotImplemented else (q, self.__mod__(o))

    def __rdivmod__(self, o):
        q = self.__rfloordiv__(o)
        return NotImplemented if q is NotImplemented else (q, self.__rmod__(o))

    __truediv__ = _int_bin("truediv")
    __rtruediv__ = _int_bin("truediv", True)
    __lt__ = _int_cmp("lt")
    __le__ = _int_cmp("le")
    __gt__ = _int_cmp("gt")
    __ge__ = _int_cmp("ge")
    __eq__ = _int_cmp("eq")
    __ne__ = _int_cmp("ne")

    def __neg__(self):
        return SymInt(-self.e)

    def __pos__(self):
        return self

    def __abs__(self):
        return SymInt(z3.If(self.e >= 0, self.e, -self.e))

    def __round__(self, ndigits=None):
        return self

    def __floor__(self):
        return self

    def __ceil__(self):
        return self

    def __trunc__(self):
        return self

    def concretize(self, limit=64):
        return cur().concretize(self.e, limit)

    def __hash__(self):
        return hash(self.concretize())

    def __index__(self):
        return self.concretize()

    def __int__(self):
        return self.concretize()

    def __bool__(self):
        return cur().decide(self.e != 0)

    def __float__(self):
        raise HarnessError("float() reached a symbolic int: shim `float` in the module under test")

    def __repr__(self):
        return f"I({self.e})"

    def __deepcopy__(self, memo):
        return self

    def __copy__(self):
        return self


# --------------------------------------------------------------------------- harness-side constructors
def sym_int(name, lo=None, hi=None):
    ex = cur()
    if ex.concrete:
        return ex.value(name, "int")
    v = ex.declare(name, z3.Int(name))
    if lo is not None:
        ex.solver.add(v >= lo)
    if hi is not None:
        ex.solver.add(v <= hi)
    if lo is not None and hi is not None and lo > hi:
        raise core.PathAbort()
    ex.model = None
    return SymInt(v)


def sym_real(name, lo=None, hi=None):
    ex = cur()
    if ex.concrete:
        return ex.value(name, "real")
    v = ex.declare(name, z3.Real(name))
    if lo is not None:
        ex.solver.add(v >= rv(lo))
    if hi is not None:
        ex.solver.add(v <= rv(hi))
    ex.model = None
    return SymReal(v)


def sym_bool(name):
    ex = cur()
    if ex.concrete:
        return ex.value(name, "bool")
    v = ex.declare(name, z3.Bool(name))
    return SymBool(v)


FLOAT_KINDS = ("finite", "inf", "-inf", "nan")


def sym_float(name, kinds=FLOAT_KINDS):
    """tagged float: fork over the allowed kinds; finite -> SymReal"""
    ex = cur()
    k = ex.choose(list(kinds), "kind:" + name) if len(kinds) > 1 else kinds[0]
    if k == "finite":
        return sym_real(name)
    return {"inf": float("inf"), "-inf": float("-inf"), "nan": float("nan")}[k]


def choose(n, label="c"):
    return cur().choose(n, label)


def assume(c):
    cur().assume(c)


def note(k, v):
    cur().note(k, v)


def reach(label, n=1):
    cur().reach(label, n)


# --------------------------------------------------------------------------- property combinators (dual-mode)
def _p(x):
    if isinstance(x, SymBool):
        return x.e
    if isinstance(x, z3.BoolRef):
        return x
    return z3.BoolVal(bool(x))


def all_of(xs):
    xs = list(xs)
    if all(isinstance(x, (bool, np.bool_)) for x in xs):
        return builtins.all(xs)
    return SymBool(z3.And([_p(x) for x in xs]))


def any_of(xs):
    xs = list(xs)
    if all(isinstance(x, (bool, np.bool_)) for x in xs):
        return builtins.any(xs)
    return SymBool(z3.Or([_p(x) for x in xs]))


def implies(a, b):
    if isinstance(a, (bool, np.bool_)) and isinstance(b, (bool, np.bool_)):
        return (not a) or bool(b)
    return SymBool(z3.Implies(_p(a), _p(b)))


def not_(a):
    if isinstance(a, (bool, np.bool_)):
        return not a
    return SymBool(z3.Not(_p(a)))


def iff(a, b):
    if isinstance(a, (bool, np.bool_)) and isinstance(b, (bool, np.bool_)):
        return bool(a) == bool(b)
    return SymBool(_p(a) == _p(b))


def ite(c, a, b):
    """non-forking conditional on numbers"""
    if isinstance(c, (bool, np.bool_)):
        return a if c else b
    if isinstance(a, SymInt) or isinstance(b, SymInt):
        if to_int(a) is not None and to_int(b) is not None:
            return SymInt(z3.If(_p(c), to_int(a), to_int(b)))
    return SymReal(z3.If(_p(c), to_real(a), to_real(b)))


def eq_nan(a, b):
    """float equality with NaN == NaN (None == None); works on proxies and concrete values"""
    if a is None or b is None:
        return a is None and b is None
    an = isinstance(a, float) and a != a
    bn = isinstance(b, float) and b != b
    if an or bn:
        return an and bn
    r = a == b
    return r


# --------------------------------------------------------------------------- builtin shims (installed per module)
def float_shim(x=0.0):
    if isinstance(x, (SymReal,)):
        return x
    if isinstance(x, SymInt):
        return SymReal(z3.ToReal(x.e))
    return builtins.float(x)


def int_shim(x=0, *a):
    if isinstance(x, SymInt):
        return x
    if isinstance(x, SymReal):
        return x.__trunc__()
    return builtins.int(x, *a)


class _FloatMeta(type):
    """`float` replacement usable both as a converter and as the second argument of isinstance()"""

    def __instancecheck__(cls, obj):
        return builtins.isinstance(obj, builtins.float) or builtins.isinstance(obj, SymReal)

    def __call__(cls, x=0.0):
        return float_shim(x)


class FloatType(metaclass=_FloatMeta):
    pass


class _IntMeta(type):
    def __instancecheck__(cls, obj):
        return builtins.isinstance(obj, builtins.int) or builtins.isinstance(obj, SymInt)

    def __call__(cls, x=0, *a):
        return int_shim(x, *a)


class IntType(metaclass=_IntMeta):
    pass


class MathShim:
    def __getattr__(self, n):
        return getattr(math, n)

    @staticmethod
    def isnan(x):
        if is_symnum(x):
            return False
        return math.isnan(x)

    @staticmethod
    def isinf(x):
        if is_symnum(x):
            return False
        return math.isinf(x)

    @staticmethod
    def isfinite(x):
        if is_symnum(x):
            return True
        return math.isfinite(x)

    @staticmethod
    def floor(x):
        if is_symnum(x):
            return x.__floor__()
        return math.floor(x)

    @staticmethod
    def ceil(x):
        if is_symnum(x):
            return x.__ceil__()
        return math.ceil(x)


mathshim = MathShim()


def isinstance_shim(obj, cls):
    """isinstance that lets SymReal count as float / numbers.Real and SymInt as int"""
    if isinstance(obj, SymReal):
        classes = cls if isinstance(cls, tuple) else (cls,)
        return any(c in (float, numbers.Real, numbers.Number, object) for c in classes)
    if isinstance(obj, SymInt):
        classes = cls if isinstance(cls, tuple) else (cls,)
        return any(c in (int, numbers.Integral, numbers.Real, numbers.Number, object) for c in classes)
    return builtins.isinstance(obj, cls)
