#!/bin/bash
# for every seeded change: does demo.py still fail with the patch applied to (a scratch copy of) the CURRENT tree, and pass without it?
cd /verif
one() {
  id=$1
  S=$(mktemp -d /tmp/scrd_XXXXXX)
  cp -r /repo/optuna $S/optuna
  (cd $S && timeout 900 /venv/bin/python /verif/seeded/$id/demo.py > /dev/null 2>&1); clean=$?
  (cd $S && patch -s -p1 < /verif/seeded/$id/patch.diff) || { echo "$id PATCH-FAILED"; rm -rf $S; return; }
  (cd $S && timeout 900 /venv/bin/python /verif/seeded/$id/demo.py > /dev/null 2>&1); patched=$?
  echo "$id clean=$clean patched=$patched"
  rm -rf $S
}
export -f one
ls seeded | xargs -P ${1:-4} -I{} bash -c 'one {}'
