#!/bin/bash
# runs every claimed check (tier $1, default quick) sequentially and prints exit code + wall time
TIER=${1:-quick}
cd "$(dirname "$0")/.."
for id in $(python3 -c "import json; print(' '.join(c['property_id'] for c in json.load(open('MANIFEST.json'))['checks']))"); do
  s=$(date +%s)
  ./check $id --tier $TIER > /tmp/runall_${TIER}_$id.log 2>&1
  rc=$?
  e=$(date +%s)
  echo "$id rc=$rc $((e-s))s $(grep -c '^KNOWN-FINDING' /tmp/runall_${TIER}_$id.log) known $(head -1 /tmp/runall_${TIER}_$id.log | cut -c1-120)"
done
