#!/bin/bash
# usage: scratch_check.sh <patch.diff> <PROP> [check args...]  -- run ./check against a scratch copy of optuna with the patch applied (never touches /repo)
set -u
P=$1; PROP=$2; shift 2
S=$(mktemp -d /tmp/scr_XXXXXX)
cp -r /repo/optuna $S/optuna
(cd $S && patch -s -p1 < $P) || { echo "patch does not apply"; rm -rf $S; exit 8; }
(cd /verif && VERIF_NO_EVIDENCE=1 PYTHONPATH=$S timeout 3000 ./check $PROP "$@"; echo "exit $?")
rm -rf $S
