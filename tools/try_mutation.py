#!/usr/bin/env python3
"""Development aid: apply a textual mutation to /repo, run a check, always revert. usage: try_mutation.py <prop> <file> <old> <new> [--only ...]"""
import subprocess
import sys

prop, f, old, new = sys.argv[1:5]
extra = sys.argv[5:]
p = "/repo/" + f
s = open(p).read()
assert s.count(old) >= 1, "pattern not found"
open(p, "w").write(s.replace(old, new, 1))
try:
    r = subprocess.run(["/verif/check", prop, "--tier", "quick"] + extra, capture_output=True, text=True, timeout=3000)
    lines = r.stdout.splitlines()
    print("exit", r.returncode)
    for l in lines:
        if l.startswith(("VIOLATION", "  violation class", "INCONCLUSIVE", "HARNESS-ERROR")):
            print(l[:260])
finally:
    subprocess.run(["git", "-C", "/repo", "checkout", "--", f])
