#!/bin/bash
# usage: seed_regression.sh [parallel=3] [ids...]  -- re-runs the quick check of every seeded change against a scratch copy of optuna with the
# patch applied (never touches /repo) and compares with meta.json's caught_by_quick_check. Development/regression aid.
PAR=${1:-3}; shift
cd /verif
IDS=${@:-$(ls seeded)}
run_one() {
  id=$1
  prop=${id%%-*}
  S=$(mktemp -d /tmp/scr_XXXXXX)
  cp -r /repo/optuna $S/optuna
  (cd $S && patch -s -p1 < /verif/seeded/$id/patch.diff) || { echo "$id PATCH-FAILED"; rm -rf $S; return; }
  props=$prop
  [ "$id" = "C05-3" ] && props="C07"
  out=$(VERIF_NO_EVIDENCE=1 VERIF_JOBS=${SEEDJOBS:-6} PYTHONPATH=$S timeout 3000 ./check $props --tier quick 2>&1); rc=$?
  nv=$(echo "$out" | grep -c '^VIOLATION')
  want=$(python3 -c "import json;print(json.load(open('/verif/seeded/$id/meta.json'))['caught_by_quick_check'])")
  [ "$id" = "C05-3" ] && want="True(C07)"
  echo "$id rc=$rc violations=$nv expected_caught=$want"
  rm -rf $S
}
export -f run_one
echo $IDS | tr ' ' '\n' | xargs -P $PAR -I{} bash -c 'run_one {}'
