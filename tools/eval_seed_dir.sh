#!/bin/bash
# usage: eval_seed_dir.sh <PROP> <seed_out dir> <name> [check args...]
# development aid (round 4): ingest <seed_out>/patch.diff + demo.py as /verif/seeded/<name>, run the demo on an unpatched and on a patched
# scratch copy of /repo/optuna (PYTHONPATH in front - never touches /repo) and then the property's quick check against the patched copy.
set -u
PROP=$1; SRC=$2; NAME=$3; shift 3
D=/verif/seeded/$NAME
mkdir -p $D
cp $SRC/patch.diff $D/patch.diff; cp $SRC/demo.py $D/demo.py; [ -f $SRC/notes.txt ] && cp $SRC/notes.txt $D/notes.md
S=$(mktemp -d /tmp/scr_XXXXXX)
cp -r /repo/optuna $S/optuna
echo "== demo on unpatched copy"; (cd $S && PYTHONPATH=$S timeout 600 /venv/bin/python $D/demo.py >$S/clean.log 2>&1; echo "exit $?")
(cd $S && patch -s -p1 < $D/patch.diff) || { echo "patch does not apply"; rm -rf $S; exit 8; }
echo "== demo on patched copy"; (cd $S && PYTHONPATH=$S timeout 600 /venv/bin/python $D/demo.py >$S/patched.log 2>&1; echo "exit $?"; tail -3 $S/patched.log)
echo "== check $PROP on patched copy"
(cd /verif && VERIF_NO_EVIDENCE=1 PYTHONPATH=$S timeout 3000 ./check $PROP --tier quick "$@" > $S/check.log 2>&1; echo "exit $?"; grep -E "^VIOLATION|violation class|INCONCLUSIVE|HARNESS" $S/check.log | cut -c1-300 | head -6)
rm -rf $S
