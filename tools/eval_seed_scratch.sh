#!/bin/bash
# usage: eval_seed_scratch.sh <PROP> <worktree> <n> [check args...]
# development aid: like eval_seed.sh but never touches /repo - the patch is applied to a scratch copy of the optuna package which is put
# in front of sys.path (PYTHONPATH) for the demo and for ./check. Used while long runs read /repo; results are confirmed with eval_seed.sh.
set -u
PROP=$1; WT=$2; N=$3; shift 3
D=/verif/seeded/${PROP}-$(basename $WT | sed 's/wt_//')-$N
mkdir -p $D
cp $WT/seeded_out/patch$N.diff $D/patch.diff
cp $WT/seeded_out/demo$N.py $D/demo.py
S=$(mktemp -d /tmp/scr_XXXXXX)
cp -r /repo/optuna $S/optuna
echo "== demo on unpatched copy"; (cd $S && timeout 600 /venv/bin/python $D/demo.py >/tmp/demo_clean_$$.log 2>&1; echo "exit $?")
(cd $S && patch -s -p1 < $D/patch.diff) || { echo "patch does not apply"; rm -rf $S; exit 8; }
echo "== demo on patched copy"; (cd $S && timeout 600 /venv/bin/python $D/demo.py >/tmp/demo_patched_$$.log 2>&1; echo "exit $?"; tail -3 /tmp/demo_patched_$$.log)
echo "== check $PROP on patched copy"
(cd /verif && VERIF_NO_EVIDENCE=1 PYTHONPATH=$S timeout 3000 ./check $PROP --tier quick "$@" > /tmp/check_patched_$$.log 2>&1; echo "exit $?"; grep -E "^VIOLATION|violation class|INCONCLUSIVE|HARNESS" /tmp/check_patched_$$.log | cut -c1-300 | head -6)
rm -rf $S /tmp/demo_clean_$$.log /tmp/demo_patched_$$.log /tmp/check_patched_$$.log
