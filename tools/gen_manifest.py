#!/usr/bin/env python3
"""Regenerates /verif/MANIFEST.json from the table below (kept next to the checks so they cannot drift)."""
import json
import os

V = os.path.dirname(os.path.dirname(os.path.abspath(__file__)))
TECH = "bounded symbolic execution of the real optuna code (own z3-backed executor), z3 discharges every path's assertion; counterexamples replayed concretely"

CLAIMED = {
    "C02": dict(
        text="Bounded symbolic execution of the real optimize/_run_trial/_tell_with_warning/tell code on in-memory storage: every "
             "objective behaviour from a 26-shape result lattice x exception kinds x reports x prune requests x sampler faults x stop(), "
             "numeric contents as z3 reals; the statement of C02 is asserted on every feasible path and discharged by z3. "
             "Bounded (<=2 trials quick, <=3 thorough), so this is bounded verification, not a proof.",
        note="trusted: z3, the float/math shims (identity on symbolic finite reals), InMemoryStorage as the storage; n_jobs>1, "
             "timeouts and heartbeats are outside the claim",
        design="§3 C02"),
}

CLAIMED["C08"] = dict(
    text="Bounded symbolic execution of the real _CachedStorage cache code and GrpcClientCache/GrpcStorageProxy + servicer GetTrials over one "
         "shared backend: k symbolic steps (client, op, trial, state; objective values z3 reals) by two caching clients; after every read and at "
         "the end every cached view (all filters, single trial, number lookup, name, directions) is compared with the backend at that moment and "
         "the watermark invariant is asserted; which state filter a client reads first is an explorer choice (an unfiltered read repairs a cache a "
         "filtered one would expose); seeded histories with an older unfinished and a younger finished trial. k<=3 quick, k<=4 thorough.",
    note="trusted: z3; backend is a fake RDB (InMemoryStorage + RDBStorage._get_trials' filter transcribed, checked against the real RDBStorage "
         "on SQLite in every run); gRPC transport replaced by a direct call with the real protobuf messages; thread interleavings inside one client "
         "and SQL are outside",
    design="§3 C08")

CLAIMED["C09"] = dict(
    text="Narrow claim: the identifier channel through which a storage can influence a sampler. The real BaseGASampler generation/parent-cache "
         "code and optuna.copy_study are executed with a symbolic trial-id offset, symbolic parent subset and z3-real values; results in trial "
         "numbers must not depend on the offset, cached calls must equal first calls, copies must equal originals field for field; and the "
         "representation-order channel: the real TPE split and group-decomposed sample_relative get the same data in every dict/set order "
         "(values z3 reals) and must return the same result. Whole seeded runs (9 samplers x id offset / journal file / rerun / split / fresh "
         "interpreters with other PYTHONHASHSEEDs) are compared concretely as a supplementary, explicitly non-solver obligation.",
    note="whole-run reproducibility for all objective programs is outside the solver-decided claim (given the seed nothing is left to quantify); "
         "RDB/gRPC transports are modelled only by the id offset",
    design="§3 C09")

CLAIMED["C20"] = dict(
    text="Bounded symbolic execution over the finite product (backend x getter x 1-2 setters) of the real Study/Trial/storage getters and "
         "setters with z3-real values: objects returned by a getter are snapshotted structurally, setters run, earlier objects must equal "
         "their snapshots; deep-copied results (incl. study-level objects, tell(skip_if_finished), constrained best_trial) are mutated in every "
         "field and fresh reads must be unaffected.",
    note="backends: InMemoryStorage, JournalStorage over an in-memory list backend, _CachedStorage over the fake RDB (fresh objects per read, "
         "as the real RDB builds them); cross-thread mutation mid-read is C03",
    design="§3 C20")

CLAIMED["C16"] = dict(
    text="Bounded symbolic execution of the real prune() of Percentile/Median/SuccessiveHalving/Hyperband/Patient/Threshold/Nop pruners on "
         "symbolic histories (z3-int parameters, z3-real or NaN intermediate values, forked steps and states; SH/Hyperband through the real "
         "ask/report/should_prune flow). z3 discharges on every path: warm-up/start-up/patience gates, strictly-best-is-never-pruned, "
         "threshold iff, nop never, bracket = f(name, number); integer gates also for unbounded steps; WilcoxonPruner's start-up gate and "
         "average-is-best safety with SciPy's p-value arbitrary (counterexamples replayed with the real SciPy).",
    note="trusted: z3, NumPy object-array shim (nanmin/nanmax/nanpercentile; validated against real NumPy each run), exact reals for value "
         "comparison; the numeric value of SciPy's Wilcoxon p-value and bootstrap>0 outside; <=3 other trials, <=4 steps",
    design="§3 C16")

CLAIMED["C13"] = dict(
    text="Relational bounded symbolic execution: one symbolic history (z3-real values, pairwise distinct; NaN forks) is fed to two instances "
         "of the real code as (MAXIMIZE, H) and (MINIMIZE, -H) with thresholds mirrored; z3 proves equal decisions on every path pair for "
         "Percentile/Median/SuccessiveHalving/Hyperband/Patient/Threshold pruners, Study.best_trial, the Pareto front with any subset of "
         "objectives flipped, TPE _split_trials, the NSGA-II elite population selection (rank + crowding distance) and WilcoxonPruner "
         "(SciPy's signed-rank p-value an uninterpreted function with the test's exact symmetry; counterexamples replayed with the real SciPy).",
    note="claim is over exact reals (negation/comparison exact on doubles; percentile interpolation rounding is outside and its one known "
         "tie-rounding witness is listed as a known finding); GP/CMA-ES and whole seeded runs outside",
    design="§3 C13")

CLAIMED["C12"] = dict(
    text="Bounded symbolic execution of the real best-trial code on in-memory, journal and cached backends: trial states and completion "
         "order are forks, objective values z3 reals or +-inf with symbolic ties, constraints z3 reals; the result of Study.best_trial / "
         "best_value / best_trials is compared by z3 with the O(n^2) definition (no strictly better eligible COMPLETE trial; feasible when "
         "a feasible trial exists; exactly the non-dominated (feasible) set) on every path. n<=3 trials quick, <=4 thorough, 1-3 objectives.",
    note="trusted: z3, NumPy object-array shim for _multi_objective (np.unique(axis=0)), JSON model of journal records; RDB SQL ranking, "
         "4 objectives and NaN objective values outside",
    design="§3 C12")

CLAIMED["C17"] = dict(
    text="Bounded symbolic execution of the real IntersectionSearchSpace/_calculate and _GroupDecomposedSearchSpace code against a real "
         "Study on InMemoryStorage whose history evolves over epochs (parameter presence, finishing order and state, appended RUNNING/WAITING "
         "trials, gained parameters, call points are forks; the distribution of a name is FloatDistribution(0,h) with h a z3 real so that "
         "equal/different distributions are decided by the solver). After every call: incremental == from-scratch definition == "
         "intersection_search_space, never grows, groups are a partition compatible with every qualifying trial.",
    note="<=3 initial trials (+1 appended), 2 names, <=3 epochs: small-scope claim, the cursor logic only compares trial numbers",
    design="§3 C17")

CLAIMED["C14"] = dict(
    level="exploration",
    text="Exhaustive bounded case split over the real BruteForceSampler/GridSampler inside the real optimize loop: program shapes enumerated "
         "up to 7 leaves; within a shape every rng.choice (all seeds), every leaf outcome (complete/fail/pruned) and every interruption point "
         "with a fresh sampler object are explorer forks, also runs interrupted INSIDE a trial (a trial left RUNNING with its grid id / after its "
         "first parameter), the strict stop criterion, and one transient failure before a trial's last suggest call (2 known findings); every path "
         "asserts each combination exactly once and self-termination. All inputs are "
         "finite structural choices, so the solver has nothing numeric to decide: the deciding step is the executor's complete path enumeration.",
    note="deterministic objectives; interruptions strictly inside the run; n_jobs>1 outside; RNG stub honours RandomState.choice's contract",
    technique="exhaustive bounded path enumeration of the real code by the symbolic executor (structural forks only; z3 not exercised)",
    design="§3 C14")

CLAIMED["C19"] = dict(
    text="Bounded symbolic execution of the real fail_stale_trials + RetryFailedTrialCallback and of the real staleness arithmetic of "
         "RDBStorage._get_stale_trial_ids (over a fake SQL session) with z3-real heartbeat instants/clock and z3-int heartbeat_interval/"
         "grace_period; two workers run the sweep (then ask) in hand-over-hand threads, the interleaving of atomic storage calls and one "
         "worker crash at any point are explorer choices. z3 discharges: FAIL iff stale, callback at most once, at most one retry per failure "
         "and chain <= max_retry, retry contents (params, attrs, history, queued parameters not drawn yet), others untouched.",
    note="storage calls atomic (RDB transactions); SQL and DB clock outside; datetimes modelled as symbolic seconds with timedelta "
         "normalisation; <=3 trials, 2 workers",
    design="§3 C19")

CLAIMED["C06"] = dict(
    text="One inductive step of journal replay by bounded symbolic execution of the real JournalStorageReplayResult.apply_logs/_apply_* and "
         "JournalStorage._sync_with_backend/restore_replay_result: from seeded replay states and any two records with symbolic op code, ids "
         "(live/deleted/unknown), issuer, state, values, distribution (compatible or not), keys, steps: batch replay == record-by-record replay "
         "(also when a record raises at its issuer mid-batch; cursor = records consumed), every replayer reaches the same public state, a rejected "
         "record raises only at its issuer with the documented class and changes nobody's state, snapshot(at any position, by any worker)+tail == "
         "full replay with per-worker fields reset (real pickle). Induction on log length extends (a),(b) to any log/batching.",
    note="records pass through a JSON model when they carry symbolic numbers; fixed ISO timestamps; Redis backend and legacy formats outside",
    design="§3 C06")

CLAIMED["C04"] = dict(
    text="Bounded symbolic execution of the real queue code on in-memory and journal backends: (a) compare-and-set step of "
         "set_trial_state_values(t, RUNNING) for two claimers in either order from every pre-state/history; (b) cursor invariant of the in-memory "
         "WAITING fast path vs the generic path after any suffix of queue operations; (c) 2-3 workers run the real Study.ask()/suggest in "
         "hand-over-hand threads with the interleaving of atomic storage calls chosen by the explorer and producers (enqueue/add WAITING/finish) "
         "interleaved: no queued trial handed out twice, none skipped for good, number/user attrs kept, enqueued values (z3 reals, None, "
         "categorical) returned verbatim although the caller changes its dicts after enqueueing.",
    note="storage calls atomic; journal workers are separate JournalStorage objects on one in-memory list backend; RDB row-level claim and real "
         "threads outside; <=3 queued trials, <=3 workers",
    design="§3 C04")

CLAIMED["C11"] = dict(
    text="Bounded symbolic execution of the real optuna.distributions code: IntDistribution with UNBOUNDED z3-int low/high/value (|x|<2^53) and "
         "a concrete step per query (1..64): high adjusted to the last grid point, idempotent under reconstruction and JSON round trip, single() <=> "
         "one grid point, containment <=> on the grid, external(internal(v)) == v, deprecated classes convert equal; FloatDistribution without step "
         "over z3 reals; stepped FloatDistribution over decimal numerals n/10^6 with unbounded z3-int n through an exact Decimal shim; "
         "CategoricalDistribution over a type lattice with symbolic numbers (True/1/1.0 collisions, NaN). One solver query set per (class, step). "
         "Concrete companions: real constructor / JSON vs exact decimals, fine-grid membership in binary floating point.",
    note="float(int) exact below 2^53 (asserted); stepped floats restricted to arguments that are decimal numerals with <=6 fractional digits "
         "(str(float(x)) is then the numeral: validated concretely each run); json replaced by a JSON model when proxies flow; the continuous "
         "transform round trip is covered by C10's kernels, not here",
    design="§3 C11")

CLAIMED["C10"] = dict(
    text="(a) exact dispatch logic of the real Trial.suggest_float/int/categorical/_suggest on in-memory and journal storages with arbitrary z3 "
         "relative/independent/enqueued values: earlier value > fixed value > single point > relative-if-contained > independent, stored == "
         "returned, stable on repeat, relative values outside the domain never returned. (b) output stages: the real "
         "_untransform_numerical_param and _SearchSpaceTransform.untransform map every point of the transformed box into the domain - ints "
         "for unbounded z3-int bounds and ANY real point, plain/log floats through the clamp (nextafter/exp/log uninterpreted monotone), stepped "
         "floats under the standard floating-point error model (SymF64, sound over-approximation; one linear query set per concrete step) "
         "followed by the real _contains; TPE's own output stages (_MixtureOfProductDistribution.sample + _ParzenEstimator._untransform) for ints, "
         "stepped floats and continuous floats, the numeric kernel's output an arbitrary point of its truncation interval (discrete) or an "
         "arbitrary real (continuous), plus a concrete companion run of the real kernel on histories with a distant range.",
    note="stepped floats: |low|<=1000, <=1000 grid points, steps from an explicit list; exp(log(x)) within 4 ulps assumed; the numerics upstream "
         "of the output stages (truncated-normal/GP/CMA kernels) are outside (C18)",
    design="§3 C10")

CLAIMED["C15"] = dict(
    text="Bounded symbolic execution of the real hypervolume (2-D and WFG), non-domination rank (constrained variant included) and HSSP code "
         "on NumPy object arrays of exact z3 reals: every comparison forks, so ties/duplicates/dominated points are separate solver-checked "
         "paths; hypervolume == inclusion-exclusion (polynomial identity decided by normalisation under the path's forced equalities, fallback "
         "nonlinear query), rank == repeated peeling with the O(n^2) definition, HSSP returns k distinct members; the (1-1/e) bound is decided on "
         "integer lattices with solver-enumerated coordinates; 3-D hypervolume also against the cell count on the lattice {0..3}^3 incl. boundary "
         "points; the documented n_below contract of the rank; HSSP with arbitrary index sets.",
    note="exactness over the reals (floating-point rounding of products outside); n<=3 quick / <=4 thorough, 2-3 dimensions; (1-1/e) only on the "
         "stated lattices ({0..2}^2, {0..1}^3 / {0..2}^3)",
    design="§3 C15")

CLAIMED["C07"] = dict(
    level="model_checking", engine="envsum",
    text="(a) symbolic execution of the real read_logs against a file whose visible length is a non-decreasing z3 int at stat() and before every "
         "line read, from an arbitrary earlier offset cache: exactly records k..j, never a partial record, cached offsets == true offsets. (b) bounded "
         "model checking of the lock protocol: the call-site automaton of the real append_logs (both lock classes) is re-extracted from the source on every "
         "run, K=2-3 copies composed in z3 with a file-system/clock model (bit-vector BMC over macro steps, symbolic schedule): for all schedules up to the "
         "depth never two lock holders, release() never raises, unwinding check unsat, reachability witness sat; sat schedules replayed on the real code. "
         "Variants: a holder that keeps the lock for the whole grace period and hands over at the last moment; a waiting worker interrupted by SIGINT "
         "(KeyboardInterrupt out of time.sleep as a symbolic fault).",
    note="operating assumption of the lease lock (hold <= 10 s, or <= the 30 s grace period in the longhold obligations; a waiter is not suspended > 5-10 s "
         "between shared calls; grace 30 s); POSIX atomicity of "
         "symlink/O_EXCL/rename; threads sharing one backend object are C03",
    technique="symbolic execution (reader) + automaton extraction from the real code and z3 bit-vector bounded model checking (lock), replayed",
    design="§3 C07")
CLAIMED["C05"] = dict(
    level="fault_enumeration", engine="envsum",
    text="Journal-file part: the crash point of a writer running the real append_logs is a symbolic index into its system-call trace and the number of "
         "bytes of the interrupted write delivered is symbolic; survivors and a fresh opener continue through the real append_logs/read_logs (stale lock "
         "overcome through the real grace-period path): acknowledged appends visible in order, interrupted one all-or-nothing, no survivor call raises, "
         "cached offsets agree with a fresh reader. Takeover of a dead holder's lock by two survivors is decided by the C07 model checker under arbitrary "
         "timing and replayed; a waiter killed by SIGINT while sleeping (finally-blocks run) is a symbolic fault of the same model checker. Two genuine "
         "defects are re-derived on every run and listed as known findings (torn record; double takeover).",
    note="POSIX model of append-mode writes; SQLite/RDB crash atomicity is outside (C library); KeyboardInterrupt at other points than the waiter's "
         "sleep is outside",
    technique="symbolic fault points over the real code (executor) + z3 bounded model checking of the lock takeover, replayed on the real code",
    design="§3 C05")

CLAIMED["C01"] = dict(
    text="Differential bounded symbolic execution of every reachable backend (InMemoryStorage, JournalStorage+replay over a list backend with the "
         "JSON model, _CachedStorage over the fake RDB, GrpcStorageProxy+servicer with the real protobuf messages over in-memory and over journal) "
         "in lockstep with an executable transcription of the BaseStorage docstrings: seeded state + every suffix of 2 (quick) / 3 (thorough) symbolic "
         "calls; after every call return value, exception class and the full readable state are compared (ids up to a bijection, numbers exactly, "
         "floats by z3 with NaN==NaN).",
    note="RDBStorage's SQL, Redis, and the gRPC wire are outside (C libraries); values through the proxy are concrete; SpecStorage is the trusted "
         "reading of the documented contract (parameter compatibility is checked against every earlier record of the name in the study, as RDB and "
         "journal do)",
    design="§3 C01")

NOT_APPLICABLE = {
    "C03": "thread/process pre-emption at source-line granularity inside the storage layer cannot be made a symbolic variable over the "
           "real Python code by a solver-based executor; its atomic-step obligations are discharged under C01/C04/C06/C07",
    "C18": "transcendental double-precision numerics (erf/log/exp/log1p polynomials, bisection) vectorised in NumPy C loops compared with "
           "SciPy to a tolerance: no SMT theory covers them and QF_FP bit-blasting does not finish",
}


def main():
    props = [json.loads(l)["id"] for l in open(os.path.join(V, "properties.jsonl"))]
    checks = []
    for pid in props:
        if pid not in CLAIMED:
            continue
        c = CLAIMED[pid]
        checks.append({
            "property_id": pid,
            "quick_cmd": f"./check {pid} --tier quick",
            "thorough_cmd": f"./check {pid} --tier thorough",
            "evidence_file": f"/verif/evidence/{pid}.json",
            "replay_cmd_template": f"./check {pid} --replay {{path}}",
            "engine": c.get("engine", "symex"),
            "level_claimed": {"category": c.get("level", "other"), "text": c["text"], "design_ref": c["design"]},
            "level_note": c["note"],
            "technique": c.get("technique", TECH),
        })
    na = []
    for pid in props:
        if pid in CLAIMED:
            continue
        na.append({"property_id": pid, "reason": NOT_APPLICABLE.get(pid, "check not yet built in this tree (planned, see DESIGN.md); not claimed")})
    m = {
        "version": 1,
        "setup_cmd": "./setup.sh",
        "hooks": {"guard": "OPTUNA_VERIF", "enable": "no source hooks are needed: checks import /repo's working tree directly and rebind module globals at run time",
                  "baseline_off_cmd": "cd /repo && /venv/bin/python -m pytest -ra -q -p no:cacheprovider --timeout=900 --continue-on-collection-errors",
                  "source_commits": [], "add_only": True},
        "engines": [
            {"name": "symex", "path": "/verif/symex", "serves_properties": [p for p in props if p in CLAIMED and CLAIMED[p].get("engine", "symex") == "symex"],
             "kind_free_text": "dynamic symbolic executor for Python: z3 proxies (Int/Real/Bool), DFS over feasible paths with decision replay, sharded over 16 processes; concrete replay of counterexamples"},
            {"name": "envsum", "path": "/verif/envsum", "serves_properties": [p for p in props if p in CLAIMED and CLAIMED[p].get("engine") == "envsum"],
             "kind_free_text": "call-site automaton extraction from the real journal file code under a scripted environment + z3 bounded model checking of k processes over a file-system model"},
        ],
        "checks": checks,
        "not_applicable": na,
        "notes": "exit codes: 0 held / only listed known findings; 1 VIOLATION (replayed concretely); 2 inconclusive; 3 harness error. Known findings: /verif/known_findings.json",
    }
    json.dump(m, open(os.path.join(V, "MANIFEST.json"), "w"), indent=1)
    print("claimed", [c["property_id"] for c in checks], "not claimed", [n["property_id"] for n in na])


if __name__ == "__main__":
    main()
