#!/bin/bash
# usage: eval_seed.sh <PROP> <worktree> <n> [check args...]   -- development aid: evaluates a sub-agent's seeded change against our check
set -u
PROP=$1; WT=$2; N=$3; shift 3
D=/verif/seeded/${PROP}-$(basename $WT | sed 's/wt_//')-$N
mkdir -p $D
cp $WT/seeded_out/patch$N.diff $D/patch.diff
cp $WT/seeded_out/demo$N.py $D/demo.py
cd /repo
git status --short | grep -v '^??' && { echo "repo dirty"; exit 9; }
echo "== demo on unpatched /repo"; (cd /repo && timeout 600 /venv/bin/python $D/demo.py >/tmp/demo_clean.log 2>&1; echo "exit $?")
git apply $D/patch.diff || { echo "patch does not apply"; exit 8; }
echo "== demo on patched /repo"; (cd /repo && timeout 600 /venv/bin/python $D/demo.py >/tmp/demo_patched.log 2>&1; echo "exit $?"; tail -3 /tmp/demo_patched.log)
echo "== check $PROP on patched /repo"
(cd /verif && timeout 3000 ./check $PROP --tier quick "$@" > /tmp/check_patched.log 2>&1; echo "exit $?"; grep -E "^VIOLATION|violation class|INCONCLUSIVE|HARNESS" /tmp/check_patched.log | cut -c1-300 | head -6)
git -C /repo checkout -- . ; git -C /repo status --short | grep -v '^??'
echo "== reverted"
