#!/usr/bin/env python3
"""Compare a junit xml of the repo's suite with /root/.vp/BASELINE.json stable_pass. usage: check_baseline.py <junit.xml>"""
import json
import sys
import xml.etree.ElementTree as ET

base = json.load(open("/root/.vp/BASELINE.json"))
stable = set(base["stable_pass"])
root = ET.parse(sys.argv[1]).getroot()
status = {}
for tc in root.iter("testcase"):
    tid = f"{tc.get('classname')}::{tc.get('name')}"
    bad = any(ch.tag in ("failure", "error") for ch in tc)
    skipped = any(ch.tag == "skipped" for ch in tc)
    status[tid] = "fail" if bad else ("skip" if skipped else "pass")
missing = [t for t in stable if t not in status]
notpass = [t for t in stable if status.get(t) not in ("pass",) and t in status]
print(f"stable_pass={len(stable)} ran={len(status)} stable passing={sum(1 for t in stable if status.get(t) == 'pass')} "
      f"stable not passing={len(notpass)} stable missing={len(missing)}")
for t in notpass[:30]:
    print("  NOT PASSING:", t, status[t])
for t in missing[:10]:
    print("  MISSING:", t)
sys.exit(1 if notpass or missing else 0)
