#!/usr/bin/env python3
"""rewrites the table of DESIGN.md section 8.5 (between the seeded-table markers) from /verif/seeded/*/meta.json"""
import json, os, re
V = os.path.dirname(os.path.dirname(os.path.abspath(__file__)))
rows, n, caught = [], 0, 0
for d in sorted(os.listdir(f"{V}/seeded")):
    m = json.load(open(f"{V}/seeded/{d}/meta.json"))
    valid = m.get("valid_on_current_tree", True)
    n += valid
    caught += bool(m["caught_by_quick_check"]) and valid
    how = re.sub(r"^caught by \./check \w+ --tier quick: obligation ", "", m["check_result"])
    rows.append(f"| {d} | {m.get('round', 1)} | {m['needs_to_manifest'].replace('|', '/')[:260]} | {'yes' if m['caught_by_quick_check'] else ('**no**' if m.get('valid_on_current_tree', True) else 'n/a (no longer breaking)')} | {how.replace('|', '/')[:420]} |")
table = ("| seeded change | round | what it needs to manifest | caught by the property's quick check | by which obligation / why not |\n|---|---|---|---|---|\n" + "\n".join(rows))
p = f"{V}/DESIGN.md"
s = open(p).read()
b, e = "<!-- seeded-table-begin -->", "<!-- seeded-table-end -->"
i, j = s.index(b), s.index(e)
s = s[:i + len(b)] + f"\n{n} changes that break their property on the current tree, {caught} caught by the quick tier of the property's own check.\n\n" + table + "\n" + s[j:]
open(p, "w").write(s)
print(n, caught)
