"""E3 (DESIGN.md §1.2): environment-summary extraction + z3 bounded model checking of the journal file lock protocol.

Step 1  extract(): the REAL JournalFileBackend.append_logs (with either lock class) runs against a scripted environment - the
        names os/time/open/uuid in optuna.storages.journal._file are rebound to stubs whose outcomes are explorer forks; every
        environment call records its call site (stack of line numbers inside journal/_file.py). Paths are folded into an automaton
        whose states are (call, call site); a (state, outcome) pair with two different successors rejects the quotient.
Step 2  bmc(): K copies of the automaton composed in z3 with a file-system model (lock link exists, its generation = mtime identity,
        the mtime each process last saw, each process's timer, a global non-decreasing real clock). The interleaving is a vector of
        symbolic ints sched[t]; each call's outcome is determined by the model state. Queries: two processes inside
        open(ab)..close at once; release() raising RuntimeError; plus the unwinding query (can a process leave the extracted tree?).
Step 3  replay(): a satisfying schedule is replayed by running the real code of the K workers in hand-over-hand threads against an
        in-memory file system, following exactly that schedule and clock; only reproduced violations are reported.
"""
from __future__ import annotations

import errno
import sys
import threading
import time
import types
import warnings

import z3

import optuna.storages.journal._file as jf

from symex import core

GRACE = 30


# ============================================================================================== step 1: extraction
class _Env:
    def __init__(self, maxcalls):
        self.trace = []
        self.n = 0
        self.maxcalls = maxcalls
        self.assign_sites = set()
        self.compare_sites = set()
        self.last_assigning_clock = None
        self.flow_ok = True
        self.expiry = set()
        self.interrupts = False
        self.nstat = 0               # successful stat calls so far
        self.parent = {}             # union-find over mtime objects: two objects are merged once the code has compared them equal
        self.latest = {}             # class root -> index of the most recent stat whose result belongs to the class

    def find(self, k):
        while self.parent.get(k, k) != k:
            k = self.parent[k]
        return k

    def staleness(self, mt):
        """how many successful stats ago the lock-file generation denoted by `mt` was last observed (0 = by the latest stat)"""
        return self.nstat - 1 - self.latest[self.find(mt.k)]

    def remembered(self):
        """staleness of every mtime object the code under extraction currently keeps in a local variable (any frame of
        journal/_file.py): the only environment history it can branch on later. Name-free: the frames' locals are scanned for
        _MT instances."""
        f = sys._getframe(2)
        st = []
        while f is not None:
            if f.f_code.co_filename.endswith("journal/_file.py"):
                for v in f.f_locals.values():
                    if isinstance(v, _MT):
                        st.append(self.staleness(v))
            f = f.f_back
        return tuple(sorted(st))

    def site(self):
        f = sys._getframe(2)
        st = []
        while f is not None:
            if f.f_code.co_filename.endswith("journal/_file.py"):
                st.append(f.f_lineno)
            f = f.f_back
        return tuple(st)

    def out(self, call, *outcomes):
        if len(self.trace) >= self.maxcalls:
            raise core.PathAbort()
        # the automaton state is (call, call site, which earlier stat results the code still remembers): the last component is
        # the only piece of environment history the code keeps in local variables and branches on later
        # ... plus the exception being handled / propagated, if any: a `finally` block entered by an exception continues differently
        # from the same block entered normally
        et = sys.exc_info()[0]
        site = self.site() + (("mem", self.remembered() + ((et.__name__,) if et is not None else ())),)
        ex = core.cur()
        chosen = outcomes[-1]
        for o in outcomes[:-1]:
            self.n += 1
            if ex.choose(2, f"{call}_{o}_{self.n}") == 0:
                chosen = o
                break
        self.trace.append((call, chosen, site))
        return chosen


_env: _Env = None  # type: ignore


class _MT:
    """st_mtime of the k-th successful stat. The code can only compare it with an earlier one (or None): the comparison is an
    environment event `mtcmp:<a>:<b>` (a, b = staleness of the two operands) whose outcome the file-system model decides."""

    def __init__(self, k):
        self.k = k

    def _ne(self, o):
        if o is None:
            return True
        if not isinstance(o, _MT):
            return NotImplemented
        e = _env
        ra, rb = e.find(self.k), e.find(o.k)
        if ra == rb:
            return False
        a, b = e.staleness(self), e.staleness(o)
        if e.out(f"mtcmp:{a}:{b}", "ne", "eq") == "ne":
            return True
        lo, hi = (ra, rb) if e.latest[ra] < e.latest[rb] else (rb, ra)
        e.parent[lo] = hi
        return False

    def __ne__(self, o):
        return self._ne(o)

    def __eq__(self, o):
        r = self._ne(o)
        return r if r is NotImplemented else not r

    __hash__ = object.__hash__


class _Clock:
    def __init__(self, site):
        self.site = site

    def __sub__(self, o):
        return _Delta(self, o)


class _Delta:
    def __init__(self, a, b):
        self.a, self.b = a, b

    def _cmp(self, op, g):
        # `now - last <op> grace`: record which clock reads flow where, and the comparison itself (operator, threshold)
        _env.assign_sites.add(self.b.site)
        _env.compare_sites.add(self.a.site)
        _env.expiry.add((op, g))
        if self.b is not _env.last_clock_by_site.get(self.b.site):
            _env.flow_ok = False
        return _env.out("expired", "yes", "no") == "yes"

    def __gt__(self, g):
        return self._cmp("gt", g)

    def __ge__(self, g):
        return self._cmp("ge", g)

    def __lt__(self, g):
        return self._cmp("lt", g)

    def __le__(self, g):
        return self._cmp("le", g)


class _WF:
    def __enter__(self):
        return self

    def __exit__(self, *a):
        _env.out("close", "ok")
        return False

    def write(self, b):
        # the write inside the critical section may fail (ENOSPC / EIO): the worker stays alive and must still release the lock
        if _env.out("write", "eio", "ok") == "eio":
            raise OSError(errno.EIO, "x")

    def flush(self):
        _env.out("flush", "ok")

    def fileno(self):
        return 3


class _OS:
    O_CREAT = O_EXCL = O_WRONLY = 0
    path = types.SimpleNamespace(exists=lambda p: True)

    def symlink(self, a, b):
        if _env.out("create", "ok", "eexist") == "eexist":
            raise OSError(errno.EEXIST, "x")

    def open(self, p, flags):
        if _env.out("create", "ok", "eexist") == "eexist":
            raise OSError(errno.EEXIST, "x")
        return 7

    def close(self, fd):
        _env.out("close_fd", "ok")

    def stat(self, p):
        if _env.out("stat", "ok", "enoent") == "enoent":
            raise OSError(errno.ENOENT, "x")
        k = _env.nstat
        _env.nstat += 1
        _env.latest[k] = k
        return types.SimpleNamespace(st_mtime=_MT(k), st_size=0)

    def rename(self, a, b):
        if _env.out("rename", "ok", "enoent") == "enoent":
            raise OSError(errno.ENOENT, "x")

    def unlink(self, a):
        _env.out("unlink", "ok")

    def fsync(self, fd):
        _env.out("fsync", "ok")


class _TIME:
    def monotonic(self):
        _env.out("mono", "ok")
        c = _Clock(tuple(x for x in _env.trace[-1][2] if not (isinstance(x, tuple) and x and x[0] == "mem")))
        if not hasattr(_env, "last_clock_by_site"):
            _env.last_clock_by_site = {}
        _env.last_clock_by_site[c.site] = c
        return c

    def sleep(self, s):
        # a waiting worker may be interrupted (Ctrl-C / SIGINT -> KeyboardInterrupt) while it sleeps
        if _env.interrupts and _env.out("sleep", "interrupt", "ok") == "interrupt":
            raise KeyboardInterrupt()
        if not _env.interrupts:
            _env.out("sleep", "ok")


def _install_extraction_stubs():
    jf.os = _OS()
    jf.time = _TIME()
    jf.open = lambda p, mode: (_env.out("open_append", "ok"), _WF())[1]


def extract(lock_cls_name, maxcalls=22, interrupts=False):
    """returns dict(nodes, edges, root, assign_sites, conflicts, paths); interrupts=True adds the outcome "KeyboardInterrupt raised
    by time.sleep" (a waiting worker interrupted by SIGINT) and the terminal END_INTR"""
    global _env
    warnings.simplefilter("ignore")
    _install_extraction_stubs()
    lock_cls = getattr(jf, lock_cls_name)
    traces = set()
    info = {"assign": set(), "compare": set(), "flow_ok": True, "expiry": set()}

    def body():
        global _env
        _env = _Env(maxcalls)
        _env.interrupts = interrupts
        _env.last_clock_by_site = {}
        be = jf.JournalFileBackend.__new__(jf.JournalFileBackend)
        be._file_path = "/x/j.log"
        be._lock = lock_cls("/x/j.log", grace_period=GRACE)
        be._log_number_offset = {0: 0}
        end = "END_OK"
        try:
            be.append_logs([{"op_code": 0}])
        except RuntimeError:
            end = "END_RAISED"
        except KeyboardInterrupt:
            end = "END_INTR"
        except OSError:
            end = "END_OSERROR"
        except core.PathAbort:
            traces.add(tuple(_env.trace) + (("END_CUT", "", ()),))
            info["assign"] |= _env.assign_sites
            info["compare"] |= _env.compare_sites
            info["flow_ok"] &= _env.flow_ok
            info["expiry"] |= _env.expiry
            raise
        traces.add(tuple(_env.trace) + ((end, "", ()),))
        info["assign"] |= _env.assign_sites
        info["compare"] |= _env.compare_sites
        info["flow_ok"] &= _env.flow_ok
        info["expiry"] |= _env.expiry
        return True
    ex = core.Explorer()
    t0 = time.time()
    ex.run(body)
    nodes, edges, conflicts = {}, {}, 0
    conflict_samples = []

    def nid(k):
        return nodes.setdefault(k, len(nodes))
    for tr in traces:
        keys = [(e[0], e[2]) for e in tr]
        for i in range(len(tr) - 1):
            if keys[i + 1][0] == "END_CUT":
                continue
            a, b = nid(keys[i]), nid(keys[i + 1])
            prev = edges.setdefault(a, {}).get((tr[i][0], tr[i][1]))
            if prev is not None and prev != b:
                conflicts += 1
                if len(conflict_samples) < 5:
                    conflict_samples.append((keys[i], (tr[i][0], tr[i][1]), keys[i + 1], [k for k, v in nodes.items() if v == prev][0]))
            edges[a][(tr[i][0], tr[i][1])] = b
    first = min(traces, key=len)
    root = nodes[(first[0][0], first[0][2])]
    if len(info["expiry"]) != 1 or not all(isinstance(g, int) and g % TICK == 0 for _, g in info["expiry"]):
        info["flow_ok"] = False           # the expiry test is not a single comparison with a multiple of the model tick
    # path property over the exhaustively enumerated environment traces: every call that can deliver journal bytes (write, flush, and
    # close, which flushes) happens while this process holds the lock (after its successful create, before its release rename)
    io_outside = set()
    for tr in traces:
        held = False
        for (call, outcome, site) in tr:
            if call == "create" and outcome == "ok":
                held = True
            elif call == "rename":
                held = False
            elif call in ("write", "flush", "close") and not held:
                io_outside.add((call, tuple(x for x in site if isinstance(x, int))))
    # second path property: a process that created the lock and is still alive releases it on EVERY way out of append_logs,
    # exceptional ones (a failing write, an interrupt) included
    lock_leaked = set()
    for tr in traces:
        if tr[-1][0] == "END_CUT":
            continue
        held = False
        for (call, outcome, site) in tr:
            if call == "create" and outcome == "ok":
                held = True
            elif call == "rename":
                held = False
        if held:
            lock_leaked.add(tr[-1][0] + " after " + "/".join(f"{c}:{o}" for (c, o, _) in tr if o not in ("ok", "")))
    return dict(lock_leaked=sorted(lock_leaked), io_outside_lock=sorted(io_outside), nodes=nodes, edges=edges, root=root, assign_sites=info["assign"], expiry=sorted(info["expiry"]), compare_sites=info["compare"], flow_ok=info["flow_ok"],
                conflicts=conflicts, conflict_samples=conflict_samples, paths=ex.stats.paths, wall_s=time.time() - t0, lock=lock_cls_name)


# ============================================================================================== step 2: BMC
TICK = 5           # seconds per model tick: grace_period = 30 s = 6 ticks
GRACE_T = GRACE // TICK


SHARED = ("create", "stat", "rename")      # environment calls that read or write the shared lock link; all others are process-local


HIST = 3           # how many earlier stat results the model keeps per process (a comparison reaching further back is a CUT)


def bmc(aut, K, depth, crash, rounds=1, timeout_ms=600000, hold_bound=2, step_delay=1, tmax=31):
    """Macro-step BMC: one step of a process = one SHARED call followed by the chain of local calls up to its next shared call
    (local calls - clock reads, the expiry comparison, sleep, unlink of the private rename target, the writes inside the critical
    section - commute with the other processes' steps because they touch no shared model state). K live processes perform `rounds`
    append_logs each; crash=True adds a dead holder that owns the lock link from the start. Bit-vector encoding; time in ticks.
    hold_bound: a live holder releases within this many ticks of creating its lock (its critical section may take that long);
    step_delay: a process inside append_logs that does not hold the lock is not suspended longer than this many ticks between
    consecutive steps (None = arbitrary suspension)."""
    nodes, edges, root = aut["nodes"], aut["edges"], aut["root"]
    inv = {v: k for k, v in nodes.items()}
    assign = aut["assign_sites"]
    s = z3.SolverFor("QF_BV")
    s.set("timeout", timeout_ms)
    T = depth
    PCW, GW, TW, KW = 6, 6, 6, 3
    CUT, DONE = 62, 61
    NONE = 63
    V = lambda x, w=PCW: z3.BitVecVal(x, w)  # noqa: E731

    def call_of(n):
        return inv[n][0]

    def local_chain(n, tmp, last, nowv, hs, fuel=14, intr=None):
        """symbolically run the local calls starting at node n; returns (pc, tmp, last) expressions at the next shared call / terminal.
        hs = the generations seen by this process's latest successful stats (hs[0] = most recent)"""
        if fuel == 0:
            return V(CUT), tmp, last
        if n == CUT or n not in edges:
            return V(n), tmp, last
        c = call_of(n)
        es = edges[n]
        if c in SHARED:
            return V(n), tmp, last
        if c == "mono":
            site = tuple(x for x in inv[n][1] if not (isinstance(x, tuple) and x and x[0] == "mem"))
            return local_chain(es.get(("mono", "ok"), CUT), nowv, (nowv if site in assign else last), nowv, hs, fuel - 1, intr)
        if c == "expired":
            op, g = aut["expiry"][0]
            gt = g // TICK
            cond = {"gt": z3.UGT, "ge": z3.UGE, "lt": z3.ULT, "le": z3.ULE}[op](tmp - last, gt)
            y = local_chain(es.get(("expired", "yes"), CUT), tmp, last, nowv, hs, fuel - 1, intr)
            n_ = local_chain(es.get(("expired", "no"), CUT), tmp, last, nowv, hs, fuel - 1, intr)
            return z3.If(cond, y[0], n_[0]), z3.If(cond, y[1], n_[1]), z3.If(cond, y[2], n_[2])
        if c.startswith("mtcmp:"):
            a, b = (int(x) for x in c.split(":")[1:])
            if a >= HIST or b >= HIST:
                return V(CUT), tmp, last
            cond = hs[a] != hs[b]
            y = local_chain(es.get((c, "ne"), CUT), tmp, last, nowv, hs, fuel - 1, intr)
            n_ = local_chain(es.get((c, "eq"), CUT), tmp, last, nowv, hs, fuel - 1, intr)
            return z3.If(cond, y[0], n_[0]), z3.If(cond, y[1], n_[1]), z3.If(cond, y[2], n_[2])
        if (c, "interrupt") in es and intr is not None:
            y = local_chain(es[(c, "interrupt")], tmp, last, nowv, hs, fuel - 1, None)        # at most one interrupt per macro step
            n_ = local_chain(es.get((c, "ok"), CUT), tmp, last, nowv, hs, fuel - 1, intr)
            return z3.If(intr, y[0], n_[0]), z3.If(intr, y[1], n_[1]), z3.If(intr, y[2], n_[2])
        return local_chain(es.get((c, "ok"), CUT), tmp, last, nowv, hs, fuel - 1, intr)
    term_ok = [n for k, n in nodes.items() if k[0] == "END_OK"]
    term_raised = [n for k, n in nodes.items() if k[0] == "END_RAISED"]
    term_intr = [n for k, n in nodes.items() if k[0] == "END_INTR"]
    shared_nodes = [n for n in edges if call_of(n) in SHARED]

    def bv(name, w):
        return z3.BitVec(name, w)
    pc = [[bv(f"pc_{p}_{t}", PCW) for t in range(T + 1)] for p in range(K)]
    rnd = [[bv(f"rnd_{p}_{t}", 2) for t in range(T + 1)] for p in range(K)]
    hold = [[z3.Bool(f"hold_{p}_{t}") for t in range(T + 1)] for p in range(K)]
    idle = [[z3.Bool(f"idle_{p}_{t}") for t in range(T + 1)] for p in range(K)]
    lock = [z3.Bool(f"lock_{t}") for t in range(T + 1)]
    gen = [bv(f"gen_{t}", GW) for t in range(T + 1)]
    seen = [[[bv(f"seen{j}_{p}_{t}", GW) for t in range(T + 1)] for p in range(K)] for j in range(HIST)]
    last = [[bv(f"last_{p}_{t}", TW) for t in range(T + 1)] for p in range(K)]
    tmp = [[bv(f"tmp_{p}_{t}", TW) for t in range(T + 1)] for p in range(K)]
    acq = [[bv(f"acq_{p}_{t}", TW) for t in range(T + 1)] for p in range(K)]
    lastact = [[bv(f"lastact_{p}_{t}", TW) for t in range(T + 1)] for p in range(K)]
    now = [bv(f"now_{t}", TW) for t in range(T + 1)]
    sched = [bv(f"sched_{t}", KW) for t in range(T)]
    intr = [z3.Bool(f"intr_{t}") for t in range(T)]          # the process scheduled at step t is interrupted at its next sleep
    s.add(lock[0] == bool(crash), gen[0] == 0, now[0] == 0)
    # the local prefix of acquire() (clock read before the first create) - evaluated when a round starts
    for p in range(K):
        pc0, tmp0, last0 = local_chain(root, V(0, TW), V(0, TW), now[0], [seen[j][p][0] for j in range(HIST)])
        s.add(pc[p][0] == pc0, z3.And([seen[j][p][0] == NONE for j in range(HIST)]), rnd[p][0] == 0, last[p][0] == last0, tmp[p][0] == tmp0, acq[p][0] == 0, lastact[p][0] == 0,
              z3.Not(hold[p][0]), idle[p][0])
    for t in range(T):
        s.add(z3.ULE(sched[t], K), z3.UGE(now[t + 1], now[t]), z3.ULE(now[t + 1], tmax))
        s.add(z3.Implies(sched[t] == K, z3.And(lock[t + 1] == lock[t], gen[t + 1] == gen[t])))        # stutter
        for p in range(K):
            s.add(z3.Implies(hold[p][t + 1], z3.ULE(now[t + 1] - acq[p][t + 1], hold_bound)))
            here_p = sched[t] == p
            keep_p = z3.And(z3.And([seen[j][p][t + 1] == seen[j][p][t] for j in range(HIST)]), last[p][t + 1] == last[p][t], tmp[p][t + 1] == tmp[p][t], acq[p][t + 1] == acq[p][t],
                            rnd[p][t + 1] == rnd[p][t], hold[p][t + 1] == hold[p][t], idle[p][t + 1] == idle[p][t], lastact[p][t + 1] == lastact[p][t])
            s.add(z3.Implies(z3.Not(here_p), z3.And(pc[p][t + 1] == pc[p][t], keep_p)))
            s.add(z3.Implies(here_p, lastact[p][t + 1] == now[t + 1]))
            if step_delay is not None:
                s.add(z3.Implies(z3.And(here_p, z3.Not(idle[p][t]), z3.Not(hold[p][t])), z3.ULE(now[t + 1] - lastact[p][t], step_delay)))
            # the holder's next step (its release) comes within hold_bound of the acquisition
            s.add(z3.Implies(z3.And(here_p, hold[p][t]), z3.ULE(now[t + 1] - acq[p][t], hold_bound)))
            s.add(z3.Implies(here_p, z3.Or([pc[p][t] == n for n in shared_nodes])))
            for n in shared_nodes:
                es = edges[n]
                c = call_of(n)
                here = z3.And(here_p, pc[p][t] == n)

                cur_hs = [seen[j][p][t] for j in range(HIST)]
                new_hs = [gen[t]] + cur_hs[:-1]                  # after a successful stat

                def then(o, hs, es=es, c=c):
                    """(pc', tmp', last') after outcome o and the following local chain; a process that starts a round first
                    runs the local prefix of acquire() (its initial clock read) at the instant of this very step"""
                    _, tmp_s, last_s = local_chain(root, tmp[p][t], last[p][t], now[t + 1], hs)
                    tmp_in = z3.If(idle[p][t], tmp_s, tmp[p][t])
                    last_in = z3.If(idle[p][t], last_s, last[p][t])
                    return local_chain(es.get((c, o), CUT), tmp_in, last_in, now[t + 1], hs, intr=intr[t])

                def finish(pcx, tmpx, lastx, seenx, holdx, acqx):
                    """wrap-up: a macro step that reaches END_OK starts the next round (or stops)"""
                    is_ok = z3.Or([pcx == n2 for n2 in term_ok]) if term_ok else z3.BoolVal(False)
                    more = z3.ULT(rnd[p][t] + 1, rounds)
                    pcr, tmpr, lastr = local_chain(root, tmpx, lastx, now[t + 1], seenx)
                    return z3.And(
                        pc[p][t + 1] == z3.If(is_ok, z3.If(more, pcr, V(DONE)), pcx),
                        tmp[p][t + 1] == z3.If(z3.And(is_ok, more), tmpr, tmpx), last[p][t + 1] == z3.If(z3.And(is_ok, more), lastr, lastx),
                        rnd[p][t + 1] == z3.If(z3.And(is_ok, more), rnd[p][t] + 1, rnd[p][t]),
                        z3.And([seen[j][p][t + 1] == z3.If(is_ok, V(NONE, GW), seenx[j]) for j in range(HIST)]), idle[p][t + 1] == is_ok,
                        hold[p][t + 1] == holdx, acq[p][t + 1] == acqx)
                if c == "create":
                    o_ok, o_no = then("ok", cur_hs), then("eexist", cur_hs)
                    eff = z3.If(lock[t],
                                z3.And(lock[t + 1] == lock[t], gen[t + 1] == gen[t], finish(o_no[0], o_no[1], o_no[2], cur_hs, hold[p][t], acq[p][t])),
                                z3.And(lock[t + 1], gen[t + 1] == gen[t] + 1, finish(o_ok[0], o_ok[1], o_ok[2], cur_hs, z3.BoolVal(True), now[t + 1])))
                elif c == "stat":
                    o_e, o_k = then("enoent", cur_hs), then("ok", new_hs)
                    eff = z3.And(lock[t + 1] == lock[t], gen[t + 1] == gen[t],
                                 z3.If(z3.Not(lock[t]), finish(o_e[0], o_e[1], o_e[2], cur_hs, hold[p][t], acq[p][t]),
                                       finish(o_k[0], o_k[1], o_k[2], new_hs, hold[p][t], acq[p][t])))
                else:   # rename: the process's own release if it holds the lock, a forced take-over otherwise; either way it no longer holds
                    o_ok, o_no = then("ok", cur_hs), then("enoent", cur_hs)
                    eff = z3.And(gen[t + 1] == gen[t],
                                 z3.If(lock[t], z3.And(z3.Not(lock[t + 1]), finish(o_ok[0], o_ok[1], o_ok[2], cur_hs, z3.BoolVal(False), acq[p][t])),
                                       z3.And(lock[t + 1] == lock[t], finish(o_no[0], o_no[1], o_no[2], cur_hs, z3.BoolVal(False), acq[p][t]))))
                s.add(z3.Implies(here, eff))
    viol_mutex = z3.Or([z3.And(hold[p][t], hold[q][t]) for t in range(T + 1) for p in range(K) for q in range(p + 1, K)])
    viol_raise = z3.Or([pc[p][t] == n for p in range(K) for t in range(T + 1) for n in term_raised]) if term_raised else z3.BoolVal(False)
    cutreach = z3.Or([pc[p][t] == CUT for p in range(K) for t in range(T + 1)])
    alldone = z3.And([pc[p][T] == DONE for p in range(K)])
    interrupted = z3.Or([pc[p][T] == n for p in range(K) for n in term_intr]) if term_intr else None
    if not term_intr:
        s.add(z3.Not(z3.Or(intr)))
    res = {"K": K, "depth": T, "crash": crash, "rounds": rounds, "queries": 0, "solver_s": 0.0, "hold_bound_ticks": hold_bound,
           "step_delay_ticks": step_delay, "tick_seconds": TICK}
    out = {}
    queries = [("mutual_exclusion", viol_mutex), ("release_raises", viol_raise), ("unwinding", cutreach), ("witness_all_done", alldone)]
    if interrupted is not None:
        queries.append(("witness_interrupted", interrupted))
    for name, q in queries:
        t0 = time.time()
        s.push()
        s.add(q)
        r = s.check()
        res["queries"] += 1
        res["solver_s"] += time.time() - t0
        out[name] = str(r)
        if r == z3.sat and not name.startswith("witness_"):
            m = s.model()
            tr = []
            for t in range(T):
                p = m.eval(sched[t], model_completion=True).as_long()
                if p >= K:
                    continue
                n = m.eval(pc[p][t], model_completion=True).as_long()
                nv = m.eval(now[t + 1], model_completion=True).as_long()
                tr.append({"t": t, "p": p, "call": call_of(n) if n in inv else "-", "now": float(nv * TICK), "macro": True,
                           "interrupt": bool(term_intr) and z3.is_true(m.eval(intr[t], model_completion=True))})
            out[name + "_trace"] = tr
        s.pop()
    res["result"] = out
    res["states"] = len(nodes)
    res["transitions"] = sum(len(es) for es in edges.values())
    return res


# ============================================================================================== step 3: replay on the real code
SHARED_REPLAY = ("create", "stat", "rename")


class MemFS:
    """in-memory POSIX model shared by the replayed workers"""

    def __init__(self, dead_holder):
        self.links = {}
        self.gen = 0
        self.mtime = {}
        self.journal = b""
        self.now = 0.0
        if dead_holder:
            self.links["/x/j.log.lock"] = "dead"
            self.mtime["/x/j.log.lock"] = 0


def replay(lock_cls_name, trace, K, crash, rounds=1, fail_write=()):
    """run the real append_logs of K workers following `trace` (list of {p, call, now}); returns (violation:str|None, log)"""
    fs = MemFS(crash)
    sem_main = threading.Semaphore(0)
    workers = []
    state = {"in_cs": set(), "violations": [], "log": []}
    tls = threading.local()

    class Killed(BaseException):
        pass

    def sync(call):
        w = tls.w
        w["pending"] = call
        sem_main.release()
        w["sem"].acquire()
        if state.get("kill"):
            raise Killed()
        state["log"].append((w["id"], call))

    class OS:
        O_CREAT = O_EXCL = O_WRONLY = 0
        path = types.SimpleNamespace(exists=lambda p: True)

        def _create(self, path):
            sync("create")
            if path in fs.links:
                raise OSError(errno.EEXIST, "exists")
            fs.gen += 1
            fs.links[path] = tls.w["id"]
            fs.mtime[path] = fs.gen
            state.setdefault("holders", set()).add(tls.w["id"])
            if len(state["holders"]) > 1:
                state["violations"].append(f"workers {sorted(state['holders'])} both believe they hold the lock (created their lock file and have not released)")

        def symlink(self, a, b):
            self._create(b)

        def open(self, p, flags):
            self._create(p)
            return 7

        def close(self, fd):
            sync("close_fd")

        def stat(self, p):
            sync("stat")
            if p not in fs.links:
                raise OSError(errno.ENOENT, "gone")
            return types.SimpleNamespace(st_mtime=fs.mtime[p], st_size=0)

        def rename(self, a, b):
            sync("rename")
            state.setdefault("holders", set()).discard(tls.w["id"])
            if a not in fs.links:
                raise OSError(errno.ENOENT, "gone")
            fs.links[b] = fs.links.pop(a)

        def unlink(self, a):
            sync("unlink")
            fs.links.pop(a, None)

        def fsync(self, fd):
            sync("fsync")

    class WF:
        def __enter__(self):
            return self

        def __exit__(self, *a):
            sync("close")
            if getattr(self, "dirty", False):
                self._must_hold("close with buffered data")
            self.dirty = False
            state["in_cs"].discard(tls.w["id"])
            return False

        def _must_hold(self, what):
            if tls.w["id"] not in state.get("holders", set()):
                state["violations"].append(f"worker {tls.w['id']} delivers journal bytes ({what}) while it does not hold the lock")

        def write(self, b):
            sync("write")
            if tls.w.pop("fail_write", False):
                raise OSError(errno.EIO, "injected write failure")
            self._must_hold("write")
            self.dirty = True
            fs.journal += b

        def flush(self):
            sync("flush")
            if getattr(self, "dirty", False):
                self._must_hold("flush of buffered data")
            self.dirty = False

        def fileno(self):
            return 3

    def fake_open(p, mode):
        sync("open_append")
        state["in_cs"].add(tls.w["id"])
        if len(state["in_cs"]) > 1:
            state["violations"].append(f"workers {sorted(state['in_cs'])} are inside open(ab)..close at the same time")
        return WF()

    class TIME:
        def monotonic(self):
            sync("mono")
            return fs.now

        def sleep(self, s):
            sync("sleep")
            if tls.w.pop("interrupt_now", False):
                raise KeyboardInterrupt()
    saved = (jf.os, jf.time, getattr(jf, "open", None))
    jf.os, jf.time, jf.open = OS(), TIME(), fake_open
    warnings.simplefilter("ignore")
    try:
        def run(wid):
            def body():
                tls.w = workers[wid]
                workers[wid]["sem"].acquire()
                try:
                    if state.get("kill"):
                        return
                    be = jf.JournalFileBackend.__new__(jf.JournalFileBackend)
                    be._file_path = "/x/j.log"
                    be._lock = getattr(jf, lock_cls_name)("/x/j.log", grace_period=GRACE)
                    be._log_number_offset = {0: 0}
                    for r in range(rounds):
                        be.append_logs([{"w": wid, "r": r}])
                except Killed:
                    pass
                except KeyboardInterrupt:
                    state["log"].append((wid, "interrupted"))
                except OSError as e:
                    state["log"].append((wid, f"append_logs raised {type(e).__name__}"))
                    if "/x/j.log.lock" in fs.links and fs.links["/x/j.log.lock"] == wid:
                        state["violations"].append(f"worker {wid} is alive, its append_logs raised {type(e).__name__}, and its lock file is still there: everybody else has to wait out the grace period")
                except RuntimeError as e:
                    state["violations"].append(f"worker {wid}: append_logs raised RuntimeError({e})")
                except BaseException as e:  # noqa
                    state["violations"].append(f"worker {wid}: {type(e).__name__}: {e}")
                finally:
                    workers[wid]["done"] = True
                    sem_main.release()
            return body
        for wid in range(K):
            workers.append({"id": wid, "sem": threading.Semaphore(0), "done": False, "fail_write": wid in fail_write})
        for wid in range(K):
            th = threading.Thread(target=run(wid), daemon=True)
            workers[wid]["thread"] = th
            th.start()
        def advance(p):
            """let worker p perform its pending environment call and run to (and block before) its next one"""
            workers[p]["sem"].release()
            sem_main.acquire()
        for p in range(K):
            advance(p)                        # start each thread: it runs to its first environment call and blocks before it
        for step in trace:
            p = step["p"]
            if workers[p]["done"]:
                continue
            fs.now = step["now"]
            # a macro step: pending local calls, then exactly one shared call, then the local calls that follow it
            guard = 0
            while not workers[p]["done"] and workers[p].get("pending") not in SHARED_REPLAY and guard < 40:
                advance(p)
                guard += 1
            if not workers[p]["done"]:
                advance(p)                    # the shared call itself
            if step.get("interrupt"):
                workers[p]["interrupt_now"] = True
            guard = 0
            while not workers[p]["done"] and workers[p].get("pending") not in SHARED_REPLAY and guard < 40:
                advance(p)
                guard += 1
            workers[p].pop("interrupt_now", None)
            if state["violations"]:
                break
        state["kill"] = True
        for w in workers:
            w["sem"].release()
        for w in workers:
            w["thread"].join(timeout=5)
    finally:
        jf.os, jf.time = saved[0], saved[1]
        if saved[2] is None:
            del jf.open
        else:
            jf.open = saved[2]
    return (state["violations"][0] if state["violations"] else None), state["log"]
