#!/bin/bash
# Builds the overlay virtualenv used by every check: /venv's site-packages + /repo (current working tree) + z3.
# Offline: everything comes from /opt/veriftools/wheels.
set -e
cd "$(dirname "$0")"
if [ ! -x .venv/bin/python ] || ! .venv/bin/python -c "import z3, optuna" >/dev/null 2>&1; then
  rm -rf .venv
  /venv/bin/python -m venv .venv
  SP=$(.venv/bin/python -c "import sysconfig; print(sysconfig.get_paths()['purelib'])")
  printf "/venv/lib/python3.12/site-packages\n/repo\n" > "$SP/_overlay.pth"
  .venv/bin/pip install -q --no-index --find-links /opt/veriftools/wheels z3-solver jsonschema >/dev/null
fi
.venv/bin/python -c "import z3, optuna, sys; assert optuna.__file__.startswith('/repo/'), optuna.__file__; print('setup ok: z3', z3.get_version_string(), 'optuna', optuna.__file__)"
