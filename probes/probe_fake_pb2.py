"""Probe: derive plain-Python message classes from the real api_pb2 descriptors (proto3 defaults, repeated
containers that are not lists, maps), wire GrpcStorageProxy straight into OptunaStorageProxyService, and run
the real client/servicer code over in-memory and journal backends."""
import sys, types, copy, warnings
sys.path.insert(0, '/verif/probes')
import optuna, grpc, enum
from optuna.storages.journal._base import BaseJournalBackend
class SymReal: pass
from optuna.storages._grpc import client as gc, servicer as gs
from optuna.storages._grpc.auto_generated import api_pb2 as real
from google.protobuf.descriptor import FieldDescriptor as FD
from optuna.storages import InMemoryStorage, JournalStorage
from optuna.study import StudyDirection
from optuna.trial import TrialState, create_trial
warnings.simplefilter("ignore"); optuna.logging.set_verbosity(optuna.logging.CRITICAL)

class FakeRepeated:
    """like RepeatedScalarContainer: sequence-like, falsy when empty, NOT a list (json cannot serialise it)"""
    def __init__(self, xs=()): self._x = list(xs)
    def __iter__(self): return iter(self._x)
    def __len__(self): return len(self._x)
    def __getitem__(self, i): return self._x[i]
    def __bool__(self): return bool(self._x)
    def __eq__(self, o): return list(self) == list(o)
    def __repr__(self): return f"Rep{self._x}"
def make_fake_module(desc):
    mod = types.SimpleNamespace()
    def default(f):
        if f.message_type is not None and f.message_type.GetOptions().map_entry: return {}
        if f.is_repeated: return FakeRepeated()
        if f.type == FD.TYPE_MESSAGE: return None
        if f.type in (FD.TYPE_STRING,): return ""
        if f.type in (FD.TYPE_BOOL,): return False
        if f.type in (FD.TYPE_DOUBLE, FD.TYPE_FLOAT): return 0.0
        return 0
    for name, md in desc.message_types_by_name.items():
        fields = list(md.fields)
        def init(self, _fields=fields, **kw):
            for f in _fields:
                v = kw.pop(f.name, None)
                if v is None: v = default(f)
                elif f.message_type is not None and f.message_type.GetOptions().map_entry: v = dict(v)
                elif f.is_repeated: v = FakeRepeated(v)
                setattr(self, f.name, v)
            assert not kw, kw
        setattr(mod, name, type(name, (), {"__init__": init}))
    for ename, ed in desc.enum_types_by_name.items():
        for v in ed.values: setattr(mod, v.name, v.number)
        setattr(mod, ename, types.SimpleNamespace(ValueType=int))
    return mod
fake = make_fake_module(real.DESCRIPTOR)
gc.api_pb2 = fake; gs.api_pb2 = fake
class Abort(grpc.RpcError):
    def __init__(self, code, details): self._c = code; self._d = details
    def code(self): return self._c
class Ctx:
    def abort(self, code, details): raise Abort(code, details)
class DirectStub:
    def __init__(self, service): self._s = service
    def __getattr__(self, n):
        m = getattr(self._s, n)
        return lambda req: m(req, Ctx())
def proxy_over(backend):
    p = gc.GrpcStorageProxy.__new__(gc.GrpcStorageProxy)
    p._stub = DirectStub(gs.OptunaStorageProxyService(backend)); p._cache = gc.GrpcClientCache(p._stub); p._host = "x"; p._port = 0
    return p
_src = open('/verif/probes/probe_journal_vs_inmemory.py').read()
exec(_src[_src.index("def jsonish"):_src.index("STATES = [")])
for name, backend in [("in-memory", InMemoryStorage()), ("journal", JournalStorage(ListBackend()))]:
    p = proxy_over(backend)
    sid = p.create_new_study([StudyDirection.MINIMIZE], "s")
    t0 = p.create_new_trial(sid); p.set_trial_user_attr(t0, "k", [1, 2])
    print(name, "create/attr ok; trials via proxy:", [(t.number, t.state.name, t.user_attrs) for t in p.get_all_trials(sid)])
    for label, call in [("FAIL without values", lambda: p.set_trial_state_values(t0, TrialState.FAIL)),]:
        try:
            r = call(); t = backend.get_trial(t0)
            print("  ", name, label, "->", r, "; backend values:", repr(t.values), "(contract: None)")
        except Exception as e: print("  ", name, label, "-> raised", type(e).__name__, str(e)[:80])
    t1 = p.create_new_trial(sid)
    try: print("  ", name, "COMPLETE [1.0] ->", p.set_trial_state_values(t1, TrialState.COMPLETE, [1.0]), backend.get_trial(t1).values)
    except Exception as e: print("  ", name, "COMPLETE [1.0] -> raised", type(e).__name__, str(e)[:80])
