"""Probe C10(a): real Trial.suggest_float dispatch with a sampler stub returning arbitrary symbolic values."""
import sys, time, builtins, warnings, z3
import numpy as np
sys.path.insert(0, '/verif/probes')
import symnum_probe as symnum
from symnum_probe import Explorer, SymInt, SymReal, SymBool
import optuna
import optuna.distributions as od
from optuna.samplers import BaseSampler
warnings.simplefilter("ignore"); optuna.logging.set_verbosity(optuna.logging.CRITICAL)
od.float = lambda x=0.0: x if isinstance(x, SymReal) else builtins.float(x)
class NP:
    def __getattr__(self, n): return getattr(np, n)
    def isnan(self, x): return False if isinstance(x, SymReal) else np.isnan(x)
od.np = NP()
class Stub(BaseSampler):
    def __init__(self, rel, ind, in_space): self.rel, self.ind, self.in_space = rel, ind, in_space
    def infer_relative_search_space(self, study, trial): return {"x": od.FloatDistribution(0.0, 1.0)} if self.in_space else {}
    def sample_relative(self, study, trial, space): return {"x": self.rel} if space else {}
    def sample_independent(self, study, trial, name, dist): return self.ind
def harness():
    rel, ind, fix = z3.Reals("rel ind fix")
    pre = z3.And(ind >= 0, ind <= 1)                      # contract of sample_independent: inside the domain
    stats = {"paths": 0, "kinds": set()}
    def fn():
        in_space = bool(SymInt(z3.Int("in_space"), 0, 1).concretize()); fixed = bool(SymInt(z3.Int("fixed"), 0, 1).concretize())
        study = optuna.create_study(sampler=Stub(SymReal(rel), SymReal(ind), in_space))
        if fixed: study.enqueue_trial({"x": SymReal(fix)})
        t = study.ask()
        v = t.suggest_float("x", 0.0, 1.0)                                    # REAL code
        v2 = t.suggest_float("x", 0.0, 1.0)
        stored = study._storage.get_trial(t._trial_id).params["x"]
        assert v is v2 or bool(v == v2), "not stable"
        assert stored is v or bool(stored == v), "stored value differs"
        ve = symnum.toz(v)
        inside_rel = z3.And(rel >= 0, rel <= 1)
        if fixed: want = ve == fix; kind = "fixed"
        elif in_space: want = z3.If(inside_rel, ve == rel, ve == ind); kind = "relative-or-fallback"
        else: want = ve == ind; kind = "independent"
        stats["paths"] += 1; stats["kinds"].add(kind)
        return z3.And(want, z3.Or(z3.BoolVal(fixed), z3.And(ve >= 0, ve <= 1)))
    ex = Explorer(); t0 = time.time(); r = ex.run_all(fn, pre)
    print(r[0], "paths", ex.paths, stats, "t=%.1f" % (time.time() - t0))
    if r[0] == "cex": print(r[1])
harness()
