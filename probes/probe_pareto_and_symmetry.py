"""Probe C12 (best_trials = non-dominated set, mixed directions) and C13 (max f == min -f for pruners)."""
import sys, time, math, builtins, warnings, z3
import numpy as np
sys.path.insert(0, '/verif/probes')
import symnum_probe as symnum
from symnum_probe import SymReal, SymBool, SymInt, Explorer
import optuna
from optuna.study import _multi_objective as mo
from optuna.pruners import _percentile as pp, _successive_halving as sh
from optuna.trial import TrialState, create_trial
warnings.simplefilter("ignore"); optuna.logging.set_verbosity(optuna.logging.CRITICAL)
src = open('/verif/probes/probe_hypervolume.py').read(); exec(src[src.index("class NPProxy"):src.index("proxy = NPProxy(np)")])
src2 = open('/verif/probes/probe_percentile_pruner.py').read(); exec(src2[src2.index("def is_sym"):src2.index("pp.np = NP()")])
class NPm(NPProxy):
    def asarray(self, a, dtype=None):
        return np.asarray(a)
import optuna.trial._frozen as fz
mo.np = NPm(np); pp.np = NP(); pp.math = MathShim(); sh.math = MathShim(); fz.math = MathShim()
pp.float = lambda x=0.0: x if is_sym(x) else builtins.float(x)

def pareto(n, dirs):
    V = [[z3.Real(f"v{i}_{j}") for j in range(len(dirs))] for i in range(n)]
    def fn():
        study = optuna.create_study(directions=dirs)
        for i in range(n): study.add_trial(create_trial(values=[SymReal(v) for v in V[i]]))
        got = sorted(t.number for t in study.best_trials)                       # REAL code
        vals = [[SymReal(v) for v in V[i]] for i in range(n)]
        def better(a, b, d): return bool(a < b) if d == "minimize" else bool(a > b)
        def dom(a, b): return all(not better(y, x, d) for x, y, d in zip(a, b, dirs)) and any(better(x, y, d) for x, y, d in zip(a, b, dirs))
        want = [i for i in range(n) if not any(dom(vals[j], vals[i]) for j in range(n) if j != i)]
        assert got == want, (got, want)
        return z3.BoolVal(True)
    ex = Explorer(); t = time.time(); r = ex.run_all(fn, z3.BoolVal(True))
    print("best_trials n=%d dirs=%s:" % (n, dirs), r[0], "paths", ex.paths, "t=%.1f" % (time.time() - t), flush=True)

def symmetry(kind):
    NO, NS = 2, 2
    V = [[z3.Real(f"o{i}_{s}") for s in range(NS)] for i in range(NO)]; C = [z3.Real(f"c{s}") for s in range(NS)]; q = z3.Real("q")
    allv = [v for r in V for v in r] + C
    pre = z3.And(q >= 0, q <= 100, z3.Distinct(allv))
    decided = {"T": 0, "F": 0}
    def run(maximize, sign):
        study = optuna.create_study(direction="maximize" if maximize else "minimize")
        for i in range(NO):
            t = create_trial(state=TrialState.COMPLETE, value=0.0, intermediate_values={s: SymReal(sign * V[i][s]) for s in range(NS)})
            if kind == "sha": t.system_attrs["completed_rung_0"] = SymReal(sign * V[i][0])
            study.add_trial(t)
        tid = study._storage.create_new_trial(study._study_id)
        for s in range(NS): study._storage.set_trial_intermediate_value(tid, s, SymReal(sign * C[s]))
        cur = study._storage.get_trial(tid)
        pr = pp.PercentilePruner(SymReal(q), n_startup_trials=0, n_warmup_steps=0) if kind == "pct" else sh.SuccessiveHalvingPruner(min_resource=1, reduction_factor=2)
        r = pr.prune(study, cur)                                                   # REAL code
        return bool(r)
    def fn():
        a = run(True, 1); b = run(False, -1)
        decided["T" if a else "F"] += 1
        assert a == b, ("decisions differ", a, b)
        return z3.BoolVal(True)
    ex = Explorer(); t = time.time(); r = ex.run_all(fn, pre)
    print("symmetry", kind, r[0], "paths", ex.paths, decided, "t=%.1f" % (time.time() - t), flush=True)
pareto(3, ["minimize", "maximize"]); pareto(3, ["maximize", "minimize", "maximize"]); pareto(4, ["minimize", "maximize"])
symmetry("pct"); symmetry("sha")
