"""Probe: extract the syscall automaton of JournalFileSymlinkLock.acquire/release by running the real
code against a scripted environment whose call outcomes are decided by the explorer."""
import sys, errno, types, z3, time
sys.path.insert(0, '/verif/probes')
import symnum_probe as symnum
from symnum_probe import Explorer, SymBool, SymReal
import optuna.storages.journal._file as jf

class Env:
    def __init__(self): self.trace = []; self.n = 0; self.clock = z3.RealVal(0)
    def fresh(self, name):
        self.n += 1; return z3.Bool(f"{name}{self.n}")
    def out(self, call, *outcomes):
        # choose one outcome by forking
        for o in outcomes[:-1]:
            if symnum.cur().decide(self.fresh(call + "_" + o)):
                self.trace.append((call, o)); return o
        self.trace.append((call, outcomes[-1])); return outcomes[-1]
env = None
class OS:
    path = jf.os.path
    def symlink(self, src, dst):
        if env.out("symlink", "ok", "eexist") == "eexist": raise OSError(errno.EEXIST, "exists")
    def stat(self, p):
        o = env.out("stat", "same_mtime", "new_mtime", "enoent")
        if o == "enoent": raise OSError(errno.ENOENT, "gone")
        if o == "new_mtime": env.mt = getattr(env, "mt", 0) + 1
        return types.SimpleNamespace(st_mtime=getattr(env, "mt", 0))
    def rename(self, a, b):
        if env.out("rename", "ok", "enoent") == "enoent": raise OSError(errno.ENOENT, "gone")
    def unlink(self, a):
        env.out("unlink", "ok")
class TIME:
    def monotonic(self):
        env.n += 1; d = z3.Real(f"dt{env.n}")
        symnum.cur().solver.add(d >= 0); env.clock = env.clock + d
        env.trace.append(("monotonic", "t")); return SymReal(env.clock)
    def sleep(self, s): env.trace.append(("sleep", ""))
jf.os = OS(); jf.time = TIME()
import warnings; warnings.simplefilter("ignore")
MAXCALLS = int(sys.argv[1])
traces = set()
def fn():
    global env
    env = Env()
    lock = jf.JournalFileSymlinkLock("/x/j.log", grace_period=30)
    class Cut(Exception): pass
    orig_out = env.out
    def out(call, *o):
        if len(env.trace) >= MAXCALLS: raise symnum.Abort()
        return orig_out(call, *o)
    env.out = out
    try:
        lock.acquire(); env.trace.append(("ACQUIRED", ""))
        lock.release(); env.trace.append(("RELEASED", ""))
    except RuntimeError as e:
        env.trace.append(("RAISED", str(e)))
    finally:
        traces.add(tuple(env.trace))
    return z3.BoolVal(True)
ex = Explorer(); t = time.time(); r = ex.run_all(fn, z3.BoolVal(True))
print(r[0], "paths", ex.paths, "distinct traces", len(traces), "t=%.1f" % (time.time() - t))
for tr in sorted(traces, key=len)[:6]: print([f"{c}:{o}" if o else c for c, o in tr if c not in ("monotonic","sleep")])
