"""Probe C05: writer W dies at a symbolic point of the REAL append_logs (symbolic number of bytes of the
record delivered); survivors then run the REAL append_logs/read_logs on the file-system state left behind."""
import sys, errno, io, json, time, types, z3, warnings
sys.path.insert(0, '/verif/probes')
import symnum_probe as symnum
from symnum_probe import Explorer, SymInt
import optuna.storages.journal._file as jf
warnings.simplefilter("ignore")
class Crash(BaseException): pass
class FS:
    def __init__(self): self.files = {}; self.links = {}; self.mtime = {}; self.clock = 0.0; self.calls = 0; self.crash_at = None; self.cut = None
    dead = False
    def tick(self, what):
        # a killed process runs no handlers: once dead, every further file-system call of that process is inert
        if self.dead: raise Crash(self.where)
        self.calls += 1
        if self.crash_at is not None and self.calls == self.crash_at:
            self.dead = True; self.where = what; raise Crash(what)
fs = None
class WFile:
    def __init__(self, path): self.path = path; self.buf = b""
    def __enter__(self): return self
    def __exit__(self, *a):
        if a[0] is None: self.flush()
        return False
    def write(self, b): self.buf += b
    def flush(self):
        if not self.buf: return
        data, self.buf = self.buf, b""
        if fs.dead: raise Crash(fs.where)
        if fs.crash_at is not None and fs.calls + 1 == fs.crash_at:      # the crash hits inside this write
            fs.files[self.path] = fs.files.get(self.path, b"") + data[:fs.cut(len(data))]
        fs.tick("write")
        fs.files[self.path] = fs.files.get(self.path, b"") + data
    def fileno(self): return 3
    def close(self): self.flush()
class RFile(io.BytesIO):
    pass
def fake_open(path, mode):
    fs.tick("open")
    if "a" in mode:
        fs.files.setdefault(path, b""); return WFile(path)
    return RFile(fs.files[path])
class OS:
    O_CREAT = O_EXCL = O_WRONLY = 0
    path = types.SimpleNamespace(exists=lambda p: p in fs.files)
    def symlink(self, src, dst):
        fs.tick("symlink")
        if dst in fs.links: raise OSError(errno.EEXIST, "exists")
        fs.links[dst] = src; fs.mtime[dst] = fs.clock
    def stat(self, p):
        if fs.dead: raise Crash(fs.where)
        if p in fs.links: return types.SimpleNamespace(st_mtime=fs.mtime.get(p, 0), st_size=0)
        if p in fs.files: return types.SimpleNamespace(st_size=len(fs.files[p]), st_mtime=0)
        raise OSError(errno.ENOENT, "gone")
    def rename(self, a, b):
        fs.tick("rename")
        if a not in fs.links: raise OSError(errno.ENOENT, "gone")
        fs.links[b] = fs.links.pop(a)
    def unlink(self, a):
        fs.tick("unlink"); fs.links.pop(a, None)
    def fsync(self, fd): fs.tick("fsync")
class TIME:
    def monotonic(self): fs.clock += 40.0; return fs.clock      # survivors wait out the grace period
    def sleep(self, s): pass
jf.os = OS(); jf.time = TIME(); jf.open = fake_open
REC = lambda i: {"op_code": 2, "worker_id": f"w{i}", "study_id": 0, "user_attr": {"k": i}}
P = "/x/j.log"
import collections
def classify():
    table = collections.defaultdict(set)
    def fn():
        global fs
        fs = FS(); fs.files[P] = b""
        jf.JournalFileBackend(P).append_logs([REC(0)])
        fs.calls = 0; ca = SymInt(z3.Int("crash_at"), 0, 5).concretize(); fs.crash_at = 1 + ca
        cutv = z3.Int("cut"); cutinfo = {}
        def cut(n):
            c = SymInt(cutv, 0, n).concretize(); cutinfo["c"] = "none" if c == 0 else "all" if c == n else "torn"; return c
        fs.cut = cut
        try: jf.JournalFileBackend(P).append_logs([REC(1)]); crashed = False
        except Crash as e: crashed = fs.where
        fs.crash_at = None; fs.dead = False
        verdict = "ok"
        try:
            s1 = jf.JournalFileBackend(P); s1.append_logs([REC(2)])
            got = jf.JournalFileBackend(P).read_logs(0)
            if REC(2) not in got or REC(0) not in got: verdict = "acknowledged write invisible"
            s1.append_logs([REC(3)])
            got2 = jf.JournalFileBackend(P).read_logs(0)
            if verdict == "ok" and (REC(3) not in got2): verdict = "acknowledged write invisible (2)"
        except json.JSONDecodeError: verdict = "journal unreadable (JSONDecodeError)"
        table[(crashed, cutinfo.get("c", "-"))].add(verdict)
        return z3.BoolVal(True)
    ex = Explorer(); t = time.time(); r = ex.run_all(fn, z3.BoolVal(True))
    print(r[0], "paths", ex.paths, "t=%.1f" % (time.time() - t))
    for k, v in sorted(table.items(), key=str): print("  crash during", k[0], "bytes delivered:", k[1], "->", sorted(v))
classify()
