"""Probe C04(b): InMemoryStorage WAITING fast path (tuple argument) vs generic path (list argument)."""
import sys, time, z3, warnings
sys.path.insert(0, '/verif/probes')
import symnum_probe as symnum
from symnum_probe import Explorer, SymInt
import optuna
from optuna.storages import InMemoryStorage
from optuna.study import StudyDirection
from optuna.trial import TrialState, create_trial
warnings.simplefilter("ignore"); optuna.logging.set_verbosity(optuna.logging.CRITICAL)
STATES = [TrialState.RUNNING, TrialState.COMPLETE, TrialState.PRUNED, TrialState.FAIL, TrialState.WAITING]
K = int(sys.argv[1]) if len(sys.argv) > 1 else 4
ALLOW_REQUEUE = len(sys.argv) > 2
def harness():
    bad = []
    def fn():
        s = InMemoryStorage(); sid = s.create_new_study([StudyDirection.MINIMIZE], "a")
        c = lambda n, hi: SymInt(z3.Int(n), 0, hi).concretize()
        hist = []
        for i in range(K):
            op = c(f"op{i}", 3)
            if op == 0:
                st = STATES[c(f"st{i}", 4)]; s.create_new_trial(sid, create_trial(state=st, value=1.0 if st == TrialState.COMPLETE else None)); hist.append(("add", st.name))
            elif op == 1:
                tid = c(f"t{i}", K - 1); st = STATES[c(f"st{i}", 4 if ALLOW_REQUEUE else 3)]
                try: r = s.set_trial_state_values(tid, st, [1.0] if st == TrialState.COMPLETE else None)
                except (KeyError, optuna.exceptions.UpdateFinishedTrialError): r = "exc"
                hist.append(("set", tid, st.name, r))
            elif op == 2:
                fast = [t._trial_id for t in s.get_all_trials(sid, deepcopy=False, states=(TrialState.WAITING,))]
                hist.append(("peek", tuple(fast)))
            else:
                pass
            fast = [t._trial_id for t in s.get_all_trials(sid, deepcopy=False, states=(TrialState.WAITING,))] if i == K - 1 else None
            if fast is not None:
                slow = [t._trial_id for t in s.get_all_trials(sid, deepcopy=False, states=[TrialState.WAITING])]
                if fast != slow: bad.append((list(hist), fast, slow))
        return z3.BoolVal(True)
    ex = Explorer(); t = time.time(); r = ex.run_all(fn, z3.BoolVal(True))
    print("K", K, "requeue allowed" if ALLOW_REQUEUE else "queue alphabet", r[0], "paths", ex.paths, "t=%.1f" % (time.time() - t), "mismatches:", len(bad))
    for b in bad[:3]: print("  ", b)
harness()
