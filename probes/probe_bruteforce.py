"""Probe C14: the REAL BruteForceSampler inside the REAL optimize loop; every rng.choice is an arbitrary
element with positive weight (all seeds), each leaf's outcome (complete/fail) symbolic, run split in two."""
import sys, time, z3, warnings
import numpy as np
sys.path.insert(0, '/verif/probes')
import symnum_probe as symnum
from symnum_probe import Explorer, SymInt
import optuna
from optuna.trial import TrialState
warnings.simplefilter("ignore"); optuna.logging.set_verbosity(optuna.logging.CRITICAL)
class RNG:
    def __init__(self): self.n = 0
    def choice(self, a, p=None):
        a = list(a); self.n += 1
        idx = [i for i in range(len(a)) if p is None or p[i] > 0]
        assert idx, "choice over empty support"
        k = 0 if len(idx) == 1 else SymInt(z3.Int(f"rng{self.n}_{len(idx)}"), 0, len(idx) - 1).concretize()
        return a[idx[k]]
class Lazy:
    def __init__(self, rng): self.rng = rng
    def seed(self, s): pass
LEAVES = [(0, 0), (0, 1), (0, 2), (1, "a"), (1, "b")]
def harness():
    stats = {"paths": 0}
    def fn():
        rng = RNG(); outcome = {}; evaluated = []
        def objective(trial):
            x = trial.suggest_int("x", 0, 1)
            leaf = (x, trial.suggest_int("y", 0, 2)) if x == 0 else (x, trial.suggest_categorical("z", ["a", "b"]))
            evaluated.append(leaf)
            if leaf not in outcome:
                outcome[leaf] = SymInt(z3.Int(f"out{LEAVES.index(leaf)}"), 0, 1).concretize()
            if outcome[leaf] == 1: raise ValueError("fails deterministically for this combination")
            return float(x)
        def new_sampler():
            s = optuna.samplers.BruteForceSampler(seed=0); s._rng = Lazy(rng); return s
        study = optuna.create_study(sampler=new_sampler())
        k = SymInt(z3.Int("split"), 0, 4).concretize()            # interrupt after k trials, resume with a fresh sampler object
        if k: study.optimize(objective, n_trials=k, catch=(ValueError,))
        study.sampler = new_sampler()
        if not (k and study._stop_flag and False):
            study.optimize(objective, n_trials=len(LEAVES) + 2 - k, catch=(ValueError,))
        stats["paths"] += 1
        assert sorted(map(str, evaluated)) == sorted(map(str, LEAVES)), ("not exactly once each", evaluated)
        assert len(study.trials) == len(LEAVES), ("did not stop by itself", len(study.trials))
        return z3.BoolVal(True)
    ex = Explorer(); t = time.time(); r = ex.run_all(fn, z3.BoolVal(True))
    print(r[0], "paths", ex.paths, stats, "t=%.1f" % (time.time() - t))
harness()
