import warnings
warnings.simplefilter("ignore")
from optuna.distributions import _adjust_int_uniform_high, IntDistribution
from optuna.pruners._percentile import _is_first_in_interval_step

def adjust_is_projection(low: int, high: int, step: int) -> bool:
    """
    pre: low <= high and 1 <= step <= 16
    post: _
    """
    h = _adjust_int_uniform_high(low, high, step)
    return low <= h <= high and (h - low) % step == 0 and high - h < step and _adjust_int_uniform_high(low, h, step) == h

def contains_iff_on_grid(low: int, high: int, step: int, v: int) -> bool:
    """
    pre: low <= high and 1 <= step <= 16 and -2**40 <= low and high <= 2**40 and -2**41 <= v <= 2**41
    post: _
    """
    d = IntDistribution(low, high, step=step)
    on_grid = d.low <= v <= d.high and (v - d.low) % step == 0
    return d._contains(d.to_internal_repr(v)) == on_grid and (not on_grid or d.to_external_repr(d.to_internal_repr(v)) == v)

def interval_gate(step: int, prev: int, warm: int, interval: int) -> bool:
    """
    pre: 0 <= warm <= step and 1 <= interval <= 8 and -1 <= prev < step
    post: _
    """
    # with one earlier reported step `prev` (or none: -1): pruning is considered iff no earlier report lies in the current interval
    steps = {step: 0.0}
    if prev >= 0: steps[prev] = 0.0
    got = _is_first_in_interval_step(step, steps.keys(), warm, interval)
    start = (step - warm) // interval * interval + warm
    return got == (prev < start)
