"""Probe C01 (slice): real JournalStorage (list backend + JSON model) vs real InMemoryStorage, differential
over a seeded state plus a symbolic 2-call suffix; values symbolic reals."""
import sys, time, copy, enum, z3, warnings
sys.path.insert(0, '/verif/probes')
import symnum_probe as symnum
from symnum_probe import Explorer, SymInt, SymReal
import optuna
from optuna.storages import InMemoryStorage, JournalStorage
from optuna.storages.journal._base import BaseJournalBackend
from optuna.study import StudyDirection
from optuna.trial import TrialState, create_trial
from optuna.exceptions import UpdateFinishedTrialError, DuplicatedStudyError
warnings.simplefilter("ignore"); optuna.logging.set_verbosity(optuna.logging.CRITICAL)
def jsonish(x):
    """model of json.loads(json.dumps(x)) for the value kinds that occur"""
    if isinstance(x, SymReal): return x
    if isinstance(x, enum.IntEnum): return int(x)
    if isinstance(x, dict): return {(str(k) if not isinstance(k, str) else k): jsonish(v) for k, v in x.items()}
    if isinstance(x, (list, tuple)): return [jsonish(v) for v in x]
    if x is None or isinstance(x, (bool, int, float, str)): return x
    raise TypeError(f"not JSON serialisable: {type(x)}")
class ListBackend(BaseJournalBackend):
    def __init__(self): self.logs = []
    def read_logs(self, k): return copy.deepcopy(self.logs[k:])
    def append_logs(self, logs): self.logs.extend(jsonish(l) for l in logs)
STATES = [TrialState.RUNNING, TrialState.COMPLETE, TrialState.PRUNED, TrialState.FAIL, TrialState.WAITING]
def view(s, sids, tids):
    out = []
    for sid in sids:
        try: out.append([(t._trial_id, t.number, t.state, str(t.values), dict(t.user_attrs)) for t in s.get_all_trials(sid)])
        except KeyError: out.append("KeyError")
    for tid in tids:
        try: t = s.get_trial(tid); out.append((t.number, t.state, str(t.values)))
        except KeyError: out.append("KeyError")
    return out
K = int(sys.argv[1]) if len(sys.argv) > 1 else 2
def harness():
    diffs = {}
    def fn():
        impls = [InMemoryStorage(), JournalStorage(ListBackend())]
        c = lambda name, hi: SymInt(z3.Int(name), 0, hi).concretize()
        def both(f):
            res = []
            for s in impls:
                try: res.append(("ret", f(s)))
                except (KeyError, UpdateFinishedTrialError, DuplicatedStudyError, ValueError) as e: res.append(("exc", type(e).__name__))
            return res
        hist = []
        both(lambda s: s.create_new_study([StudyDirection.MINIMIZE], "a")); both(lambda s: s.create_new_study([StudyDirection.MINIMIZE], "b"))
        both(lambda s: s.create_new_trial(0)); both(lambda s: s.create_new_trial(0, create_trial(state=TrialState.WAITING)))
        for i in range(K):
            op = c(f"op{i}", 4)
            if op == 0: f = lambda s: s.create_new_trial(c(f"sid{i}", 2)); d = ("create_trial",)
            elif op == 1: f = lambda s: s.delete_study(c(f"sid{i}", 2)); d = ("delete_study",)
            elif op == 2:
                st = STATES[c(f"st{i}", 4)]; v = SymReal(z3.Real(f"v{i}"))
                f = lambda s: s.set_trial_state_values(c(f"tid{i}", 3), st, [v] if st == TrialState.COMPLETE else None); d = ("set_state", st.name)
            elif op == 3: f = lambda s: s.set_trial_user_attr(c(f"tid{i}", 3), "k", i); d = ("set_user_attr",)
            else: f = lambda s: s.create_new_study([StudyDirection.MINIMIZE], ["a", "c"][c(f"nm{i}", 1)]); d = ("create_study",)
            r = both(f); hist.append(d)
            va, vb = view(impls[0], range(4), range(5)), view(impls[1], range(4), range(5))
            if r[0] != r[1] or va != vb:
                key = (tuple(hist), "return/exception" if r[0] != r[1] else "state")
                diffs.setdefault(key, (r, )); return z3.BoolVal(True)      # classify, then stop this path
        return z3.BoolVal(True)
    ex = Explorer(); t = time.time(); r = ex.run_all(fn, z3.BoolVal(True))
    print("K", K, r[0], "paths", ex.paths, "t=%.1f" % (time.time() - t), "distinct divergence classes:", len(diffs))
    for k, v in sorted(diffs.items(), key=str)[:12]: print("  ", k, v[0] if k[1] != "state" else "")
harness()
