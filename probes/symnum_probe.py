"""Tiny operator-overloading symbolic executor over z3 reals (probe)."""
import z3, itertools, time

class Abort(BaseException):
    pass

class Explorer:
    def __init__(self):
        self.plan = []   # list of [decision, exhausted]
        self.paths = 0
        self.checks = 0
    def decide(self, cond):
        cond = z3.simplify(cond)
        if z3.is_true(cond): return True
        if z3.is_false(cond): return False
        if self.pos < len(self.plan):
            d = self.plan[self.pos][0]
            self.pos += 1
            self.solver.add(cond if d else z3.Not(cond))
            return d
        self.checks += 2
        self.solver.push(); self.solver.add(cond); rt = self.solver.check(); self.solver.pop()
        self.solver.push(); self.solver.add(z3.Not(cond)); rf = self.solver.check(); self.solver.pop()
        if rt == z3.unknown or rf == z3.unknown: raise RuntimeError("unknown in decide")
        if rt == z3.sat and rf == z3.sat:
            self.plan.append([True, False])
        elif rt == z3.sat:
            self.plan.append([True, True])
        elif rf == z3.sat:
            self.plan.append([False, True])
        else:
            raise Abort()
        d = self.plan[-1][0]
        self.pos += 1
        self.solver.add(cond if d else z3.Not(cond))
        return d
    def run_all(self, fn, pre, timeout_ms=60000):
        global _ex
        _ex = self
        self.plan = []
        while True:
            self.solver = z3.Solver(); self.solver.set("timeout", timeout_ms); self.solver.add(pre)
            self.pos = 0
            try:
                prop = fn()
            except Abort:
                prop = None
            self.paths += 1
            if prop is not None:
                if getattr(self, "final_tactic", None):
                    fs = z3.Then(*self.final_tactic).solver(); fs.set("timeout", timeout_ms)
                    fs.add(self.solver.assertions()); fs.add(z3.Not(prop)); r = fs.check(); self.checks += 1
                    if r == z3.sat: return ("cex", fs.model())
                else:
                    self.solver.add(z3.Not(prop)); r = self.solver.check(); self.checks += 1
                if r == z3.sat:
                    return ("cex", self.solver.model())
                if r == z3.unknown:
                    return ("unknown", None)
            while self.plan and self.plan[-1][1]:
                self.plan.pop()
            if not self.plan:
                return ("ok", None)
            self.plan[-1] = [not self.plan[-1][0], True]

_ex = None
def cur(): return _ex

class SymBool:
    def __init__(self, e): self.e = e
    def __bool__(self): return cur().decide(self.e)
    def __and__(self, o): return SymBool(z3.And(self.e, tob(o)))
    def __or__(self, o): return SymBool(z3.Or(self.e, tob(o)))
    def __invert__(self): return SymBool(z3.Not(self.e))
    __rand__ = __and__; __ror__ = __or__

def tob(o):
    if isinstance(o, SymBool): return o.e
    return z3.BoolVal(bool(o))

def toz(o):
    if isinstance(o, SymReal): return o.e
    if isinstance(o, (int, float)): return z3.RealVal(repr(float(o)) if isinstance(o,float) else o)
    import numpy as np
    if isinstance(o, (np.floating, np.integer)): return z3.RealVal(repr(float(o)))
    raise TypeError(type(o))

def _bin(op, rev=False):
    def f(s, o):
        import numpy as np
        if isinstance(o, np.ndarray): return NotImplemented
        a, b = s.e, toz(o)
        if rev: a, b = b, a
        return op(a, b)
    return f

class SymReal:
    def __init__(self, e): self.e = e
    __add__ = _bin(lambda a, b: SymReal(a + b)); __radd__ = _bin(lambda a, b: SymReal(a + b), True)
    __sub__ = _bin(lambda a, b: SymReal(a - b)); __rsub__ = _bin(lambda a, b: SymReal(a - b), True)
    __mul__ = _bin(lambda a, b: SymReal(a * b)); __rmul__ = _bin(lambda a, b: SymReal(a * b), True)
    def __neg__(s): return SymReal(-s.e)
    __lt__ = _bin(lambda a, b: SymBool(a < b)); __le__ = _bin(lambda a, b: SymBool(a <= b))
    __gt__ = _bin(lambda a, b: SymBool(a > b)); __ge__ = _bin(lambda a, b: SymBool(a >= b))
    __eq__ = _bin(lambda a, b: SymBool(a == b)); __ne__ = _bin(lambda a, b: SymBool(a != b))
    def __hash__(s): return id(s)
    def __repr__(s): return f"S({s.e})"

class SymInt:
    """z3 Int with finite domain [lo, hi]; concretised by forking when hashed/indexed."""
    def __init__(self, e, lo, hi): self.e, self.lo, self.hi = e, lo, hi
    def concretize(self):
        for v in range(self.lo, self.hi):
            if cur().decide(self.e == v): return v
        cur().solver.add(self.e == self.hi)
        return self.hi
    def __hash__(self): return hash(self.concretize())
    def __index__(self): return self.concretize()
    def __int__(self): return self.concretize()
    def _z(self, o):
        if isinstance(o, SymInt): return o.e
        if isinstance(o, bool): return z3.IntVal(int(o))
        if isinstance(o, int): return z3.IntVal(o)
        return None
    def __eq__(self, o):
        z = self._z(o)
        if z is None: return False
        return SymBool(self.e == z)
    def __ne__(self, o):
        z = self._z(o)
        if z is None: return True
        return SymBool(self.e != z)
    def __lt__(s, o): return SymBool(s.e < s._z(o))
    def __le__(s, o): return SymBool(s.e <= s._z(o))
    def __gt__(s, o): return SymBool(s.e > s._z(o))
    def __ge__(s, o): return SymBool(s.e >= s._z(o))
    def __add__(s, o): return SymInt(s.e + s._z(o), s.lo + (o.lo if isinstance(o, SymInt) else o), s.hi + (o.hi if isinstance(o, SymInt) else o))
    __radd__ = __add__
    def __repr__(s): return f"I({s.e})"
    def __deepcopy__(s, memo): return s
def _dc(s, memo): return s
SymReal.__deepcopy__ = _dc
SymReal.__copy__ = lambda s: s
