"""Probe: call-site automaton of the whole REAL append_logs (lock acquire + open/write/flush/fsync/close + release)
for both lock classes."""
import sys, errno, types, z3, time, warnings
sys.path.insert(0, '/verif/probes')
import symnum_probe as symnum
from symnum_probe import Explorer
import optuna.storages.journal._file as jf
warnings.simplefilter("ignore")
MAXCALLS = 14
class Env:
    def __init__(self): self.trace = []; self.n = 0
    def out(self, call, *outcomes):
        if len(self.trace) >= MAXCALLS: raise symnum.Abort()
        f = sys._getframe(1); site = []
        while f is not None:
            if f.f_code.co_filename.endswith("journal/_file.py"): site.append(f.f_lineno)
            f = f.f_back
        for o in outcomes[:-1]:
            self.n += 1
            if symnum.cur().decide(z3.Bool(f"{call}_{o}_{self.n}")):
                self.trace.append((call, o, tuple(site))); return o
        self.trace.append((call, outcomes[-1], tuple(site))); return outcomes[-1]
env = None
class WF:
    def __enter__(self): return self
    def __exit__(self, *a): env.out("close", "ok"); return False
    def write(self, b): env.out("write", "ok")
    def flush(self): env.out("flush", "ok")
    def fileno(self): return 3
class OS:
    O_CREAT = O_EXCL = O_WRONLY = 0
    path = types.SimpleNamespace(exists=lambda p: True)
    def symlink(self, a, b):
        if env.out("symlink", "ok", "eexist") == "eexist": raise OSError(errno.EEXIST, "x")
    def open(self, p, flags):
        if env.out("open_excl", "ok", "eexist") == "eexist": raise OSError(errno.EEXIST, "x")
        return 7
    def close(self, fd): env.out("close_fd", "ok")
    def stat(self, p):
        o = env.out("stat", "same", "new", "enoent")
        if o == "enoent": raise OSError(errno.ENOENT, "x")
        if o == "new": env.mt = getattr(env, "mt", 0) + 1
        return types.SimpleNamespace(st_mtime=getattr(env, "mt", 0))
    def rename(self, a, b):
        if env.out("rename", "ok", "enoent") == "enoent": raise OSError(errno.ENOENT, "x")
    def unlink(self, a): env.out("unlink", "ok")
    def fsync(self, fd): env.out("fsync", "ok")
class Delta:
    def __gt__(self, g): return env.out("expired", "yes", "no") == "yes"
class Clock:
    def __sub__(self, o): return Delta()
class TIME:
    def monotonic(self): return Clock()
    def sleep(self, s): pass
jf.os = OS(); jf.time = TIME(); jf.open = lambda p, mode: (env.out("open_append", "ok"), WF())[1]
def extract(lock_cls):
    traces = set()
    def fn():
        global env
        env = Env()
        be = jf.JournalFileBackend.__new__(jf.JournalFileBackend); be._file_path = "/x/j.log"; be._lock = lock_cls("/x/j.log"); be._log_number_offset = {0: 0}
        end = "END_OK"
        try: be.append_logs([{"op_code": 0}])
        except RuntimeError: end = "END_RAISED"
        except symnum.Abort: end = "END_CUT"; traces.add(tuple(env.trace) + ((end, "", ()),)); raise
        traces.add(tuple(env.trace) + ((end, "", ()),))
        return z3.BoolVal(True)
    ex = Explorer(); t0 = time.time(); ex.run_all(fn, z3.BoolVal(True))
    nodes = {}; edges = {}; conflicts = 0
    nid = lambda k: nodes.setdefault(k, len(nodes))
    for tr in traces:
        keys = [(e[0], e[2]) for e in tr]
        for i in range(len(tr) - 1):
            if keys[i + 1][0] == "END_CUT": continue
            a, b = nid(keys[i]), nid(keys[i + 1]); prev = edges.setdefault(a, {}).get((tr[i][0], tr[i][1]))
            if prev is not None and prev != b: conflicts += 1
            edges[a][(tr[i][0], tr[i][1])] = b
    print(lock_cls.__name__, ":", len(traces), "paths ->", len(nodes), "states, conflicts", conflicts, "(%.1fs)" % (time.time() - t0))
    inv = {v: k for k, v in nodes.items()}
    for i in sorted(edges): print("   ", i, inv[i][0], inv[i][1], {f"{c}:{o}": t for (c, o), t in edges[i].items()})
extract(jf.JournalFileSymlinkLock); extract(jf.JournalFileOpenLock)
