import sys, time, itertools
import numpy as np, z3
sys.path.insert(0, '/verif/probes')
import symnum_probe as symnum
from symnum_probe import SymReal, SymBool, Explorer
import optuna
from optuna._hypervolume import wfg
from optuna.study import _multi_objective as mo

# --- numpy proxy for functions that do not support object arrays
class NPProxy:
    def __init__(self, real): self._r = real
    def __getattr__(self, n): return getattr(self._r, n)
    def unique(self, a, axis=None, return_inverse=False, return_index=False):
        assert axis == 0
        rows = [tuple(r) for r in a]
        # insertion sort with symbolic comparisons (lexicographic), dedupe
        def lex_lt(x, y):
            for u, v in zip(x, y):
                if u < v: return True
                if v < u: return False
            return False
        def lex_eq(x, y):
            for u, v in zip(x, y):
                if not (u == v): return False
            return True
        uniq = []  # list of (row, first_index)
        inv = [None]*len(rows)
        for i, r in enumerate(rows):
            placed = False
            for j, (u, _) in enumerate(uniq):
                if lex_eq(r, u):
                    placed = True; break
            if not placed:
                uniq.append((r, i))
        # sort uniq
        srt = []
        for (r, i) in uniq:
            k = 0
            while k < len(srt) and lex_lt(srt[k][0], r): k += 1
            srt.insert(k, (r, i))
        out = np.empty((len(srt), a.shape[1]), dtype=object)
        for k, (r, i) in enumerate(srt):
            for c, v in enumerate(r): out[k, c] = v
        res = [out]
        if return_index: res.append(np.array([i for _, i in srt], dtype=int))
        if return_inverse:
            invl = []
            for r in rows:
                for k, (u, _) in enumerate(srt):
                    if lex_eq(r, u): invl.append(k); break
            res.append(np.array(invl, dtype=int))
        return res[0] if len(res) == 1 else tuple(res)
    def isfinite(self, a):
        a = self._r.asarray(a)
        if a.dtype == object:
            return self._r.ones(a.shape, dtype=bool)  # symbolic reals are finite
        return self._r.isfinite(a)
    def all(self, a, *args, **kw):
        a = self._r.asarray(a)
        if a.dtype == object:
            ok = True
            for x in a.ravel():
                if not x: ok = False
            return ok
        return self._r.all(a, *args, **kw)
    def any(self, a, axis=None):
        a = self._r.asarray(a)
        if a.dtype == object:
            if axis is None:
                return any(bool(x) for x in a.ravel())
            assert axis == 1
            return self._r.array([any(bool(x) for x in row) for row in a], dtype=bool)
        return self._r.any(a, axis=axis)

proxy = NPProxy(np)
wfg.np = proxy
import builtins
_sf = lambda x=0.0: x if isinstance(x, SymReal) else builtins.float(x)
wfg.float = _sf
mo.np = proxy

def oracle(points, ref):
    # inclusion-exclusion
    n = len(points); d = len(ref)
    total = 0
    for k in range(1, n+1):
        for S in itertools.combinations(range(n), k):
            vol = 1
            for j in range(d):
                m = points[S[0]][j]
                for i in S[1:]:
                    m = z3.If(points[i][j] > m, points[i][j], m)
                vol = vol * (ref[j] - m)
            total = total + (vol if k % 2 == 1 else -vol)
    return total

def harness(n, d):
    P = [[z3.Real(f"p{i}_{j}") for j in range(d)] for i in range(n)]
    R = [z3.Real(f"r{j}") for j in range(d)]
    pre = z3.And([P[i][j] <= R[j] for i in range(n) for j in range(d)])
    def fn():
        lv = np.empty((n, d), dtype=object)
        for i in range(n):
            for j in range(d): lv[i, j] = SymReal(P[i][j])
        ref = np.empty(d, dtype=object)
        for j in range(d): ref[j] = SymReal(R[j])
        hv = wfg.compute_hypervolume(lv, ref)
        # oracle evaluated symbolically too (forks on comparisons)
        tot = 0
        for k in range(1, n+1):
            for S in itertools.combinations(range(n), k):
                vol = 1
                for j in range(d):
                    m = lv[S[0], j]
                    for i in S[1:]:
                        if lv[i, j] > m: m = lv[i, j]
                    vol = vol * (ref[j] - m)
                tot = tot + (vol if k % 2 == 1 else -vol)
        diff = z3.simplify(symnum.toz(hv) - symnum.toz(tot), som=True)
        if z3.is_rational_value(diff) and diff.as_fraction() == 0:
            return z3.BoolVal(True)
        # identity modulo the equalities implied by the path condition: merge variables the path forces equal
        sv = symnum.cur().solver; allv = [v for row in P for v in row] + R; rep = {}
        for i, a in enumerate(allv):
            for b in allv[:i]:
                if b.get_id() in rep: continue
                sv.push(); sv.add(a != b); same = sv.check() == z3.unsat; sv.pop()
                if same: rep[a.get_id()] = (a, b); break
        sub = [(a, b) for a, b in rep.values()]
        diff2 = z3.simplify(z3.substitute(symnum.toz(hv) - symnum.toz(tot), *sub), som=True)
        if z3.is_rational_value(diff2) and diff2.as_fraction() == 0:
            return z3.BoolVal(True)
        return diff2 == 0
    ex = Explorer()
    t = time.time()
    r = ex.run_all(fn, pre)
    print(n, d, r[0], "paths", ex.paths, "checks", ex.checks, "t=%.1f" % (time.time()-t), flush=True)
    if r[0] == "cex": print(r[1])

for n, d in [(3,3),(4,3)]:
    harness(n, d)
