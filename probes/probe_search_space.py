"""Probe C17: incremental IntersectionSearchSpace vs from-scratch, trials finishing out of order."""
import sys, time, z3, warnings, copy
sys.path.insert(0, '/verif/probes')
import symnum_probe as symnum
from symnum_probe import Explorer, SymInt
import optuna
from optuna.search_space import IntersectionSearchSpace, intersection_search_space
from optuna.search_space.group_decomposed import _GroupDecomposedSearchSpace
from optuna.distributions import FloatDistribution
from optuna.trial import TrialState, FrozenTrial
warnings.simplefilter("ignore")
NT = int(sys.argv[1]) if len(sys.argv) > 1 else 3
NAMES = sys.argv[2].split(",") if len(sys.argv) > 2 else ["x", "y"]
EPOCHS = 2
D = {"x": [FloatDistribution(0, 1), FloatDistribution(0, 2)], "y": [FloatDistribution(0, 1), FloatDistribution(0, 2)]}
UNFIN = [TrialState.RUNNING, TrialState.WAITING]; FIN = [TrialState.COMPLETE, TrialState.PRUNED, TrialState.FAIL]
class StubStudy:
    _study_id = 0
    def __init__(self): self.ts = []
    def get_trials(self, deepcopy=True, states=None): return [t for t in self.ts if states is None or t.state in states]
    def _get_trials(self, deepcopy=True, states=None, use_cache=False): return self.get_trials(deepcopy, states)
def mk(number, state, dists):
    return FrozenTrial(number=number, state=state, value=0.0 if state == TrialState.COMPLETE else None, datetime_start=None, datetime_complete=None,
                       params={k: 0.5 for k in dists}, distributions=dict(dists), user_attrs={}, system_attrs={}, intermediate_values={}, trial_id=number)
def harness(include_pruned):
    stats = {"paths": 0, "calls": 0}
    def fn():
        c = lambda name, hi: SymInt(z3.Int(name), 0, hi).concretize()
        study = StubStudy(); iss = IntersectionSearchSpace(include_pruned=include_pruned); gd = _GroupDecomposedSearchSpace(include_pruned)
        prev = None
        # initial trials: all unfinished, with symbolic parameter sets
        for i in range(NT):
            dists = {}
            for name in NAMES:
                v = c(f"d{i}{name}", 2)          # 0: absent, 1/2: variant
                if v: dists[name] = D[name][v - 1]
            study.ts.append(mk(i, UNFIN[c(f"u{i}", 1)] if i == 0 else TrialState.RUNNING, dists))
        for e in range(EPOCHS):
            for i in range(NT):
                t = study.ts[i]
                if not t.state.is_finished() and c(f"fin{e}_{i}", 1):
                    study.ts[i] = mk(i, FIN[c(f"fs{e}_{i}", 2)], t.distributions)
            if c(f"call{e}", 1) or e == EPOCHS - 1:
                got = iss.calculate(study); want = intersection_search_space(study.get_trials(deepcopy=False), include_pruned)
                stats["calls"] += 1
                assert got == want, ("incremental != from scratch", [(t.number, t.state.name, sorted(t.distributions)) for t in study.ts], got, want)
                if prev: assert set(got) <= set(prev), ("grew", prev, got)
                if got or prev is not None: prev = got if (got or prev) else prev
                groups = gd.calculate(study).search_spaces
                keys = [set(g) for g in groups]
                assert all(a.isdisjoint(b) for i, a in enumerate(keys) for b in keys[i + 1:]), "groups overlap"
                qual = [t for t in study.ts if t.state == TrialState.COMPLETE or (include_pruned and t.state == TrialState.PRUNED)]
                for t in qual:
                    ps = set(t.distributions); assert ps == set().union(*[k for k in keys if k & ps]) if ps else True, ("not a union of groups", ps, keys)
        stats["paths"] += 1
        return z3.BoolVal(True)
    ex = Explorer(); t = time.time(); r = ex.run_all(fn, z3.BoolVal(True))
    print("include_pruned", include_pruned, r[0], "paths", ex.paths, stats, "t=%.1f" % (time.time() - t), flush=True)
harness(False); harness(True)
