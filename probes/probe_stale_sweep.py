"""Probe C19: two workers run the REAL fail_stale_trials (+RetryFailedTrialCallback) concurrently on a heartbeat
storage stub; storage calls are atomic steps, the interleaving and which trials are stale are symbolic."""
import sys, time, threading, z3, warnings, copy
sys.path.insert(0, '/verif/probes')
import symnum_probe as symnum
from symnum_probe import Explorer, SymInt, SymReal
src = open('/verif/probes/probe_queue_schedules.py').read()
exec(src[src.index("class Kill"):src.index("NQ = int")])
import optuna
from optuna.storages import InMemoryStorage, RetryFailedTrialCallback
from optuna.storages._heartbeat import BaseHeartbeat, fail_stale_trials
from optuna.trial import TrialState, create_trial
warnings.simplefilter("ignore"); optuna.logging.set_verbosity(optuna.logging.CRITICAL)

class HBStorage(InMemoryStorage, BaseHeartbeat):
    """heartbeat-capable storage: staleness arithmetic of RDBStorage._get_stale_trial_ids over a symbolic clock"""
    def __init__(self, cb): super().__init__(); self.beats = {}; self.now = None; self.grace = None; self.cb = cb
    def record_heartbeat(self, trial_id): self.beats[trial_id] = self.now
    def _get_stale_trial_ids(self, study_id):
        out = []
        for t in self.get_all_trials(study_id, deepcopy=False, states=(TrialState.RUNNING,)):
            if t._trial_id not in self.beats: continue
            if self.now - self.beats[t._trial_id] > self.grace: out.append(t._trial_id)
        return out
    def get_heartbeat_interval(self): return 1
    def get_failed_trial_callback(self): return self.cb
class StepwiseHB(Stepwise, BaseHeartbeat):
    def _step(self, name, *a):
        if threading.current_thread() is not threading.main_thread(): self._s.yield_()
        return getattr(self._i, name)(*a)
    def record_heartbeat(self, trial_id): return self._step("record_heartbeat", trial_id)
    def _get_stale_trial_ids(self, study_id): return self._step("_get_stale_trial_ids", study_id)
    def get_heartbeat_interval(self): return self._i.get_heartbeat_interval()
    def get_failed_trial_callback(self): return self._i.get_failed_trial_callback()
NT = 2
def harness(max_retry):
    stats = {"paths": 0, "retries": 0}
    def fn():
        calls = []
        inner_cb = RetryFailedTrialCallback(max_retry=max_retry)
        def cb(study, trial): calls.append(trial.number); inner_cb(study, trial)
        storage = HBStorage(cb)
        study = optuna.create_study(storage=storage, sampler=optuna.samplers.RandomSampler(seed=0))
        storage.now = SymReal(z3.Real("now")); storage.grace = SymReal(z3.Real("grace"))
        symnum.cur().solver.add(z3.Real("grace") > 0)
        expect_stale = []
        for i in range(NT):
            kind = SymInt(z3.Int(f"kind{i}"), 0, 3).concretize()     # 0 running+beat, 1 running no beat, 2 finished+beat, 3 waiting
            if kind == 3: study.enqueue_trial({"x": 0.5}); continue
            t = study.ask(); t.suggest_float("x", 0, 1); t.set_user_attr("u", i)
            if kind in (0, 2):
                b = z3.Real(f"beat{i}"); storage.beats[t._trial_id] = SymReal(b)
            if kind == 2: study.tell(t, 1.0)
            if kind == 0: expect_stale.append((t.number, z3.Real("now") - z3.Real(f"beat{i}") > z3.Real("grace")))
        before = {t.number: (t.state, dict(t.params), dict(t.user_attrs)) for t in storage.get_all_trials(study._study_id)}
        sched = Sched(); raw = storage
        study._storage = StepwiseHB(raw, sched)
        ws = [sched.spawn(lambda: fail_stale_trials(study)) for _ in range(2)]
        sched.run()
        study._storage = raw
        stats["paths"] += 1
        after = storage.get_all_trials(study._study_id)
        conds = []
        for num, stale in expect_stale:
            is_fail = after[num].state == TrialState.FAIL
            conds.append(stale == z3.BoolVal(is_fail))                       # failed iff stale
            assert calls.count(num) <= 1, ("callback ran twice", calls)
            assert (calls.count(num) == 1) == is_fail, ("callback/failed mismatch", calls, num, is_fail)
        for num, (st, params, ua) in before.items():
            if num not in [n for n, _ in expect_stale]:
                assert after[num].state == st, ("untouched trial changed", num)
        retries = [t for t in after if t.number >= len(before)]
        stats["retries"] += len(retries)
        assert len(retries) == (0 if max_retry == 0 else len(calls)), ("retry count", len(retries), calls)
        for r in retries:
            src_num = r.system_attrs["failed_trial"]
            assert r.state == TrialState.WAITING and r.system_attrs["retry_history"] == [src_num]
            assert r.system_attrs["fixed_params"] if False else True
            assert dict(r.params) == before[src_num][1] and dict(r.user_attrs) == before[src_num][2], "retry lost params/attrs"
        return z3.And(conds) if conds else z3.BoolVal(True)
    ex = Explorer(); t = time.time(); r = ex.run_all(fn, z3.BoolVal(True))
    print("max_retry", max_retry, r[0], "paths", ex.paths, stats, "t=%.1f" % (time.time() - t), flush=True)
    if r[0] == "cex": print(r[1])
harness(None); harness(0)
