"""Probe C11 (Int): real IntDistribution constructor/_contains/single/to_*_repr on UNBOUNDED symbolic ints,
one query set per concrete step (linear integer arithmetic)."""
import sys, time, builtins, warnings, z3
import numpy as np
sys.path.insert(0, '/verif/probes')
import symnum_probe as symnum
from symnum_probe import Explorer, SymBool
import optuna.distributions as od
warnings.simplefilter("ignore")
class Z:
    """unbounded symbolic integer (never concretised)"""
    def __init__(self, e): self.e = e
    @staticmethod
    def z(o): return o.e if isinstance(o, Z) else z3.IntVal(int(o))
    def __add__(s, o): return Z(s.e + Z.z(o))
    __radd__ = __add__
    def __sub__(s, o): return Z(s.e - Z.z(o))
    def __rsub__(s, o): return Z(Z.z(o) - s.e)
    def __mul__(s, o): assert not isinstance(o, Z); return Z(s.e * int(o))
    __rmul__ = __mul__
    def __floordiv__(s, o): assert not isinstance(o, Z) and o > 0; return Z(s.e / int(o))       # z3 Int div: floor for positive divisor
    def __mod__(s, o): assert not isinstance(o, Z) and o > 0; return Z(s.e % int(o))
    def _c(op):
        def f(s, o): return SymBool(op(s.e, Z.z(o)))
        return f
    __lt__ = _c(lambda a, b: a < b); __le__ = _c(lambda a, b: a <= b); __gt__ = _c(lambda a, b: a > b)
    __ge__ = _c(lambda a, b: a >= b); __eq__ = _c(lambda a, b: a == b); __ne__ = _c(lambda a, b: a != b)
    def __hash__(s): return id(s)
    def __int__(s): raise TypeError("unbounded symbolic int must not be concretised")
od.int = lambda x=0: x if isinstance(x, Z) else builtins.int(x)
od.float = lambda x=0.0: x if isinstance(x, Z) else builtins.float(x)      # |x| < 2^53: float(int) is exact
class NP:
    def __getattr__(self, n): return getattr(np, n)
    def isnan(self, x): return False if isinstance(x, Z) else np.isnan(x)
od.np = NP()
def run(step):
    low, high, v = z3.Ints("low high v"); B = 2**53
    pre = z3.And(low <= high, -B < low, high < B, -B < v, v < B)
    def fn():
        d = od.IntDistribution(Z(low), Z(high), step=step)                     # REAL constructor (adjusts high)
        h = d.high.e
        conds = [low <= h, h <= high, (h - low) % step == 0, high - h < step]   # adjusted high is the last grid point
        d2 = od.IntDistribution(d.low, d.high, step=step)                      # reconstruct from own attributes (JSON round trip)
        conds.append(d2.high.e == h)
        on_grid = z3.And(low <= v, v <= h, (v - low) % step == 0)
        c = d._contains(d.to_internal_repr(Z(v)))                              # REAL code
        conds.append(c.e == on_grid)
        s = d.single(); s = s.e if isinstance(s, SymBool) else z3.BoolVal(bool(s))
        conds.append(s == (h - low < step))
        conds.append(d.to_external_repr(d.to_internal_repr(Z(v))).e == v)
        return z3.And(conds)
    ex = Explorer(); t = time.time(); r = ex.run_all(fn, pre)
    return r[0], ex.paths, time.time() - t
t0 = time.time(); res = [run(s) for s in (1, 2, 3, 7, 10, 64)]
print(res, "total %.1fs" % (time.time() - t0))
