"""Probe: real JournalFileBackend.read_logs against a file that grows (append-only) while it is read.
Visible length at stat / at each readline is symbolic and non-decreasing."""
import sys, json, time, types, z3, warnings
sys.path.insert(0, '/verif/probes')
import symnum_probe as symnum
from symnum_probe import Explorer, SymInt
import optuna.storages.journal._file as jf
warnings.simplefilter("ignore")

M = int(sys.argv[1]) if len(sys.argv) > 1 else 3            # complete records in the final file
RECS = [{"op_code": i, "w": "x" * (i % 2)} for i in range(M + 1)]
LINES = [(json.dumps(r, separators=(",", ":")) + "\n").encode() for r in RECS]
FINAL = b"".join(LINES)           # the last record may be only partially visible at any time
OFFS = [0]
for l in LINES: OFFS.append(OFFS[-1] + len(l))

class World:
    """visible length is a non-decreasing sequence of symbolic ints; writers only append whole
    records under the lock, but bytes of the record being written may become visible in chunks."""
    def __init__(self, begin):
        self.n = 0; self.vis = begin
    def advance(self):
        self.n += 1
        nv = z3.Int(f"vis{self.n}")
        symnum.cur().solver.add(nv >= self.vis, nv <= len(FINAL))
        self.vis = nv
        return nv
world = None
class SymLine:
    """a fragment of a record whose length is symbolic (partial line, or the tail chunk of one)"""
    def __init__(self, n, complete): self.n = n; self.complete = complete
    def endswith(self, b): assert b == b"\n"; return self.complete
import builtins
jf.len = lambda x: SymSize(x.n) if isinstance(x, SymLine) else builtins.len(x)
class JSONShim:
    JSONDecodeError = json.JSONDecodeError
    dumps = staticmethod(json.dumps)
    @staticmethod
    def loads(x):
        if isinstance(x, SymLine): raise json.JSONDecodeError("fragment", "", 0)   # a proper suffix of a record line is never valid JSON
        return json.loads(x)
jf.json = JSONShim
class FakeFile:
    def __init__(self): self.pos = 0; self.rec = 0; self.mid = False   # pos: int or z3 term when inside a record
    def __enter__(self): return self
    def __exit__(self, *a): return False
    def seek(self, p):
        p = p.e if isinstance(p, SymSize) else p
        assert isinstance(p, int), "seek to a symbolic offset"
        self.pos = p; self.rec = OFFS.index(p); self.mid = False
    def __iter__(self): return self
    def __next__(self):
        vis = world.advance(); ex = symnum.cur()
        if not ex.decide(vis > self.pos): raise StopIteration
        if self.rec > M: raise StopIteration
        nl = OFFS[self.rec + 1]
        if ex.decide(vis >= nl):
            if not self.mid: line = LINES[self.rec]
            else: line = SymLine(nl - self.pos, True)
            self.pos = nl; self.rec += 1; self.mid = False
            return line
        line = SymLine(vis - self.pos, False); self.pos = vis; self.mid = True
        return line
class OS:
    path = types.SimpleNamespace(exists=lambda p: True)
    def stat(self, p): return types.SimpleNamespace(st_size=SymSize(world.advance()))
class SymSize:
    """int-like symbolic size supporting the arithmetic read_logs does with it"""
    def __init__(self, e): self.e = e
    def __isub__(self, o): return SymSize(self.e - (o.e if isinstance(o, SymSize) else o))
    __sub__ = __isub__
    def __add__(self, o): return SymSize(self.e + (o.e if isinstance(o, SymSize) else o))
    __radd__ = __add__
    def __lt__(self, o): return bool(symnum.SymBool(self.e < o))
    def __eq__(self, o): return bool(symnum.SymBool(self.e == (o.e if isinstance(o, SymSize) else o)))
    def __hash__(self): return 0
jf.os = OS(); jf.open = lambda p, mode="rb": FakeFile()

def harness():
    begin = z3.Int("begin"); kfrom = z3.Int("kfrom"); kprev = z3.Int("kprev"); pbegin = z3.Int("pbegin")
    pre = z3.And(begin >= 0, begin <= len(FINAL), kfrom >= 0, kfrom <= M + 1, kprev >= 0, kprev <= M + 1, pbegin >= 0, pbegin <= begin)
    stats = {"paths": 0, "nonempty": 0}
    def fn():
        global world
        be = jf.JournalFileBackend.__new__(jf.JournalFileBackend)
        be._file_path = "/x/j.log"; be._log_number_offset = {0: 0}
        # an earlier read on an earlier prefix leaves an arbitrary (valid) cache behind
        world = World(pbegin)
        kp = SymInt(kprev, 0, M + 1).concretize()
        symnum.cur().solver.add(z3.IntVal(OFFS[kp]) <= pbegin)      # caller never asks beyond the records it has seen
        if symnum.cur().solver.check() != z3.sat: raise symnum.Abort()
        try: be.read_logs(kp)
        except Exception as e: raise AssertionError(f"first read raised {e!r}")
        for i, off in be._log_number_offset.items(): assert isinstance(off, int) and OFFS[i] == off, ("cache wrong after read 1", be._log_number_offset)
        # the read under test: starts when `begin` bytes are visible
        solver = symnum.cur().solver
        solver.add(begin >= world.vis)
        world.vis = begin
        k = SymInt(kfrom, 0, M + 1).concretize()
        solver.add(z3.IntVal(OFFS[k]) <= begin)
        if solver.check() != z3.sat: raise symnum.Abort()
        try: logs = be.read_logs(k)
        except Exception as e: raise AssertionError(f"read raised {e!r}")
        stats["paths"] += 1; stats["nonempty"] += bool(logs)
        # oracle
        assert logs == RECS[k:k + len(logs)], ("not a contiguous run from k", k, logs)
        for i, off in be._log_number_offset.items(): assert isinstance(off, int) and OFFS[i] == off, ("cache wrong", be._log_number_offset)
        # every record complete when the call began must be covered: OFFS[k+len(logs)] > begin  (or nothing to return)
        j = k + len(logs)
        covered = z3.BoolVal(True) if j > M else (z3.IntVal(OFFS[j + 1]) > begin) if j <= M else z3.BoolVal(True)
        return covered
    ex = Explorer(); t = time.time(); r = ex.run_all(fn, pre)
    print("M", M, r[0], "paths", ex.paths, "checks", ex.checks, stats, "t=%.1f" % (time.time() - t))
    if r[0] == "cex": print(r[1])
harness()
