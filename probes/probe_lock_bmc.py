"""Probe: (1) extract the syscall automaton of the real acquire()/release() (symlink lock),
(2) compose K copies with a file-system model in z3, interleaving symbolic, (3) ask for a
mutual-exclusion violation, with and without a crashed holder."""
import sys, errno, types, z3, time, warnings
sys.path.insert(0, '/verif/probes')
import symnum_probe as symnum
from symnum_probe import Explorer, SymReal
import optuna.storages.journal._file as jf
warnings.simplefilter("ignore")

# ---------- step 1: automaton extraction ----------
class Env:
    def __init__(self): self.trace = []; self.n = 0
    def out(self, call, *outcomes):
        if len([c for c in self.trace if c[0] not in ("ACQ", "REL")]) >= MAXCALLS: raise symnum.Abort()
        f = sys._getframe(1); site = []
        while f is not None:
            if f.f_code.co_filename.endswith("journal/_file.py"): site.append(f.f_lineno)
            f = f.f_back
        site = tuple(site) if site else ("harness", call)
        for o in outcomes[:-1]:
            self.n += 1
            if symnum.cur().decide(z3.Bool(f"{call}_{o}_{self.n}")):
                self.trace.append((call, o, site)); return o
        self.trace.append((call, outcomes[-1], site)); return outcomes[-1]
env = None
class OS:
    path = jf.os.path
    def symlink(self, src, dst):
        if env.out("symlink", "ok", "eexist") == "eexist": raise OSError(errno.EEXIST, "exists")
    def stat(self, p):
        o = env.out("stat", "same", "new", "enoent")
        if o == "enoent": raise OSError(errno.ENOENT, "gone")
        if o == "new": env.mt = getattr(env, "mt", 0) + 1
        return types.SimpleNamespace(st_mtime=getattr(env, "mt", 0))
    def rename(self, a, b):
        if env.out("rename", "ok", "enoent") == "enoent": raise OSError(errno.ENOENT, "gone")
    def unlink(self, a): env.out("unlink", "ok")
class TIME:
    # the only thing the code does with the clock is `now - last > grace`; make that a choice
    def monotonic(self): return Clock()
    def sleep(self, s): pass
class Clock:
    def __sub__(self, o): return Delta()
class Delta:
    def __gt__(self, g): return env.out("expired", "yes", "no") == "yes"
jf.os = OS(); jf.time = TIME()
MAXCALLS = int(sys.argv[1]) if len(sys.argv) > 1 else 9
traces = set()
def fn():
    global env
    env = Env()
    lock = jf.JournalFileSymlinkLock("/x/j.log", grace_period=30)
    try:
        lock.acquire(); env.trace.append(("ACQ", "", ()))
        env.out("crit1", "ok"); env.out("crit2", "ok")      # stands for open/write ... fsync/close of append_logs
        lock.release(); env.trace.append(("REL", "", ()))
    except RuntimeError:
        env.trace.append(("RAISED", "", ()))
    finally:
        traces.add(tuple(env.trace))
    return z3.BoolVal(True)
ex = Explorer(); t0 = time.time(); ex.run_all(fn, z3.BoolVal(True))
# quotient automaton: state = (call, site) of the *pending* env call; END states for termination
nodes = {}; edges = {}; nondet = 0
def nid(k):
    if k not in nodes: nodes[k] = len(nodes)
    return nodes[k]
CUTKEY = ("CUT",)
for tr in traces:
    evs = [e for e in tr if e[0] not in ("ACQ", "REL", "RAISED")]
    final = "END_" + ("RAISED" if any(e[0] == "RAISED" for e in tr) else "REL" if any(e[0] == "REL" for e in tr) else "CUT")
    keys = [(e[0], e[2]) for e in evs] + [(final,)]
    for i, e in enumerate(evs):
        a = nid(keys[i]); b = nid(keys[i + 1])
        if keys[i + 1] == ("END_CUT",): continue          # truncated path: successor unknown
        prev = edges.setdefault(a, {}).get((e[0], e[1]))
        if prev is not None and prev != b: nondet += 1
        edges[a][(e[0], e[1])] = b
print("extracted", len(traces), "paths ->", len(nodes), "automaton states; nondeterministic merges:", nondet, "(%.1fs)" % (time.time() - t0))
for k, i in sorted(nodes.items(), key=lambda x: x[1]): print("   ", i, k, {f"{c}:{o}": t for (c, o), t in edges.get(i, {}).items()})
root_key = None
def next_real(n): return n
first = min(traces, key=len); root = nodes[(first[0][0], first[0][2])]
# ---------- step 2: BMC ----------
def bmc(K, DEPTH, crash):
    s = z3.Solver(); s.set("timeout", 300000)
    pc = [[z3.Int(f"pc_{p}_{t}") for t in range(DEPTH + 1)] for p in range(K)]
    lock = [z3.Bool(f"lock_{t}") for t in range(DEPTH + 1)]         # lock link exists
    gen = [z3.Int(f"gen_{t}") for t in range(DEPTH + 1)]            # generation (mtime) of the link
    seen = [[z3.Int(f"seen_{p}_{t}") for t in range(DEPTH + 1)] for p in range(K)]   # last mtime observed by p
    sched = [z3.Int(f"sched_{t}") for t in range(DEPTH)]
    exp = [z3.Bool(f"exp_{t}") for t in range(DEPTH)]                 # env: grace expired answer at step t
    CUT = -1
    s.add(lock[0] == bool(crash), gen[0] == 0)
    for p in range(K): s.add(pc[p][0] == root, seen[p][0] == -1)
    if crash:  # a dead holder owns the link forever; nobody alive holds it
        pass
    for t in range(DEPTH):
        s.add(sched[t] >= 0, sched[t] < K)
        for p in range(K):
            moves = []
            for nid, es in edges.items():
                calls = {k[0] for k in es}
                assert len(calls) == 1, calls
                call = calls.pop()
                def tgt(o):
                    return next_real(es[(call, o)]) if (call, o) in es else CUT
                here = z3.And(sched[t] == p, pc[p][t] == nid)
                if call == "symlink":
                    eff = z3.If(lock[t], z3.And(pc[p][t+1] == tgt("eexist"), lock[t+1] == lock[t], gen[t+1] == gen[t]),
                                z3.And(pc[p][t+1] == tgt("ok"), lock[t+1], gen[t+1] == gen[t] + 1))
                    eff = z3.And(eff, seen[p][t+1] == seen[p][t])
                elif call == "stat":
                    eff = z3.And(lock[t+1] == lock[t], gen[t+1] == gen[t],
                                 z3.If(z3.Not(lock[t]), z3.And(pc[p][t+1] == tgt("enoent"), seen[p][t+1] == seen[p][t]),
                                       z3.If(seen[p][t] == gen[t], z3.And(pc[p][t+1] == tgt("same"), seen[p][t+1] == seen[p][t]),
                                             z3.And(pc[p][t+1] == tgt("new"), seen[p][t+1] == gen[t]))))
                elif call == "expired":
                    # without a crash nobody exceeds the grace period (operating assumption)
                    ans = exp[t] if crash else z3.BoolVal(False)
                    eff = z3.And(lock[t+1] == lock[t], gen[t+1] == gen[t], seen[p][t+1] == seen[p][t],
                                 pc[p][t+1] == z3.If(ans, tgt("yes"), tgt("no")))
                elif call == "rename":
                    eff = z3.And(gen[t+1] == gen[t], seen[p][t+1] == seen[p][t],
                                 z3.If(lock[t], z3.And(pc[p][t+1] == tgt("ok"), z3.Not(lock[t+1])),
                                       z3.And(pc[p][t+1] == tgt("enoent"), lock[t+1] == lock[t])))
                elif call in ("crit1", "crit2"):
                    eff = z3.And(lock[t+1] == lock[t], gen[t+1] == gen[t], seen[p][t+1] == seen[p][t], pc[p][t+1] == tgt("ok"))
                elif call == "unlink":
                    eff = z3.And(lock[t+1] == lock[t], gen[t+1] == gen[t], seen[p][t+1] == seen[p][t], pc[p][t+1] == tgt("ok"))
                moves.append(z3.Implies(here, eff))
            s.add(moves)
            # frame: not scheduled => pc, seen unchanged
            s.add(z3.Implies(sched[t] != p, z3.And(pc[p][t+1] == pc[p][t], seen[p][t+1] == seen[p][t])))
            # a process at a terminal node or CUT may not be scheduled
            term = [nid for nid in set(nodes.values()) if not edges.get(nid)]
            s.add(z3.Implies(sched[t] == p, z3.And(pc[p][t] != CUT, *[pc[p][t] != n for n in term])))
    hold_nodes = [nid for nid, es in edges.items() if any(k[0] == "crit2" for k in es)]   # inside the critical section
    def holds(p, t): return z3.Or([pc[p][t] == n for n in hold_nodes])
    viol = z3.Or([z3.And(holds(p, t), holds(q, t)) for t in range(DEPTH + 1) for p in range(K) for q in range(p + 1, K)])
    cutreach = z3.Or([pc[p][t] == CUT for p in range(K) for t in range(DEPTH + 1)])
    t0 = time.time()
    s.push(); s.add(viol); r = s.check(); el = time.time() - t0
    print(f"K={K} depth={DEPTH} crash={crash}: mutual-exclusion violation query -> {r} ({el:.1f}s)")
    if r == z3.sat:
        m = s.model(); inv = {v: k for k, v in nodes.items()}
        for t in range(DEPTH):
            p = m.eval(sched[t]).as_long(); n = m.eval(pc[p][t]).as_long()
            es = edges.get(n, {}); call = next(iter(es))[0] if es else "-"
            print(f"   t={t} P{p} {call:8s} lock={m.eval(lock[t])} ->", m.eval(pc[p][t+1]))
            if all(z3.is_true(m.eval(holds(q, t+1))) for q in range(K)): break
    s.pop()
    s.push(); s.add(cutreach); r2 = s.check(); s.pop()
    print("   unwinding check (can a process leave the extracted tree?):", r2)
bmc(2, 14, crash=False)
bmc(3, 18, crash=False)
bmc(2, 20, crash=True)
