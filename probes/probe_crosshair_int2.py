import warnings
warnings.simplefilter("ignore")
from optuna.distributions import _adjust_int_uniform_high
def adjust_is_projection_step3(low: int, high: int) -> bool:
    """
    pre: low <= high
    post: _
    """
    step = 3
    h = _adjust_int_uniform_high(low, high, step)
    return low <= h <= high and (h - low) % step == 0 and high - h < step and _adjust_int_uniform_high(low, h, step) == h
