"""Probe C15 (HSSP + rank): real _solve_hssp / _fast_non_domination_rank on object arrays of exact reals."""
import sys, time, itertools, builtins, warnings, z3
import numpy as np
sys.path.insert(0, '/verif/probes')
import symnum_probe as symnum
from symnum_probe import SymReal, SymBool, Explorer
import optuna
from optuna._hypervolume import wfg, hssp
from optuna.study import _multi_objective as mo
# reuse the proxy from the hypervolume probe
src = open('/verif/probes/probe_hypervolume.py').read()
ns = {}
exec(src[src.index("class NPProxy"):src.index("proxy = NPProxy(np)")], globals())
class NP2(NPProxy):
    def empty(self, shape, dtype=None): return np.empty(shape, dtype=dtype if dtype in (int, bool) else object)
    def zeros(self, shape, dtype=None): return np.zeros(shape, dtype=dtype if dtype in (int, bool) else object)
    def isinf(self, x): return False if isinstance(x, SymReal) else np.isinf(x)
    def isnan(self, x):
        a = np.asarray(x)
        return np.zeros(a.shape, dtype=bool) if a.dtype == object else np.isnan(a)
    def isfinite(self, a):
        if isinstance(a, SymReal): return True
        return super().isfinite(a)
    def unique(self, a, axis=None, return_inverse=False, return_index=False, return_counts=False):
        if axis is None and np.asarray(a).dtype != object:
            return np.unique(a, return_inverse=return_inverse, return_index=return_index, return_counts=return_counts)
        if axis is None:   # 1-D object array: reuse the row version
            r = super().unique(np.asarray(a).reshape(-1, 1), axis=0, return_inverse=return_inverse, return_index=return_index)
            return (r[0].reshape(-1),) + tuple(r[1:]) if isinstance(r, tuple) else r.reshape(-1)
        return super().unique(a, axis=axis, return_inverse=return_inverse, return_index=return_index)
proxy = NP2(np)
_sf = lambda x=0.0: x if isinstance(x, SymReal) else builtins.float(x)
for m in (wfg, hssp, mo): m.np = proxy; m.float = _sf
hssp.max = lambda *a: (a[0] if not (a[1] > a[0]) else a[1]) if len(a) == 2 else builtins.max(*a)

def sym_hv(points, ref):
    """exact dominated volume by inclusion-exclusion, evaluated with forks (all max resolved)"""
    tot = 0; n = len(points); d = len(ref)
    for k in range(1, n + 1):
        for S in itertools.combinations(range(n), k):
            vol = 1
            for j in range(d):
                m = points[S[0]][j]
                for i in S[1:]:
                    if points[i][j] > m: m = points[i][j]
                vol = vol * (ref[j] - m)
            tot = tot + (vol if k % 2 == 1 else -vol)
    return tot

def harness(n, d, k, L=None):
    if L is None:
        P = [[z3.Real(f"p{i}_{j}") for j in range(d)] for i in range(n)]; R = [z3.Real(f"r{j}") for j in range(d)]
        pre = z3.And([P[i][j] < R[j] for i in range(n) for j in range(d)])
    else:   # integer lattice {0..L-1}^d, reference point (L,..,L)
        P = [[z3.Int(f"p{i}_{j}") for j in range(d)] for i in range(n)]; R = [z3.IntVal(L) for j in range(d)]
        pre = z3.And([z3.And(P[i][j] >= 0, P[i][j] < L) for i in range(n) for j in range(d)])
    def fn():
        lv = np.empty((n, d), dtype=object); pts = [[SymReal(P[i][j]) for j in range(d)] for i in range(n)]
        for i in range(n):
            for j in range(d): lv[i, j] = pts[i][j]
        ref = np.empty(d, dtype=object); rf = [SymReal(x) for x in R]
        for j in range(d): ref[j] = rf[j]
        sel = hssp._solve_hssp(lv, np.arange(n), k, ref)           # REAL code
        sel = [int(x) for x in sel]
        assert len(sel) == k and len(set(sel)) == k and all(0 <= i < n for i in sel), ("not k distinct members", sel)
        got = sym_hv([pts[i] for i in sel], rf)
        # (1-1/e) bound against the best subset; 1-1/e < 0.6322
        conds = []
        for T in itertools.combinations(range(n), k):
            best = sym_hv([pts[i] for i in T], rf)
            conds.append(symnum.toz(got) * 10000 >= symnum.toz(best) * 6322)
        return z3.And(conds)
    ex = Explorer()
    t = time.time(); r = ex.run_all(fn, pre, timeout_ms=60000)
    print(f"HSSP n={n} d={d} k={k} L={L}: {r[0]} paths={ex.paths} checks={ex.checks} t={time.time()-t:.1f}s", flush=True)
    if r[0] == "cex": print(r[1])

def rank_harness(n, d):
    P = [[z3.Real(f"p{i}_{j}") for j in range(d)] for i in range(n)]
    def fn():
        pts = [[SymReal(P[i][j]) for j in range(d)] for i in range(n)]
        lv = np.empty((n, d), dtype=object)
        for i in range(n):
            for j in range(d): lv[i, j] = pts[i][j]
        ranks = [int(x) for x in mo._fast_non_domination_rank(lv)]      # REAL code
        # oracle: peel fronts with the O(n^2) definition
        def dom(a, b):
            le = all(bool(x <= y) for x, y in zip(a, b)); lt = any(bool(x < y) for x, y in zip(a, b)); return le and lt
        left = set(range(n)); want = [None] * n; r = 0
        while left:
            front = [i for i in left if not any(dom(pts[j], pts[i]) for j in left if j != i)]
            for i in front: want[i] = r
            left -= set(front); r += 1
        assert ranks == want, (ranks, want)
        return z3.BoolVal(True)
    ex = Explorer(); t = time.time(); r = ex.run_all(fn, z3.BoolVal(True))
    print(f"rank n={n} d={d}: {r[0]} paths={ex.paths} t={time.time()-t:.1f}s", flush=True)

rank_harness(3, 2); rank_harness(3, 3); rank_harness(4, 2)
harness(3, 2, 2, L=4)
