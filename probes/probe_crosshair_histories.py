from typing import List, Tuple
import optuna
from optuna.storages import InMemoryStorage
from optuna.study import StudyDirection
from optuna.trial import TrialState
optuna.logging.disable_default_handler()
optuna.logging.set_verbosity(optuna.logging.ERROR)

def _run(ops):
    s = InMemoryStorage()
    s.create_new_study([StudyDirection.MINIMIZE], "a")
    s.create_new_study([StudyDirection.MINIMIZE], "b")
    for op, arg in ops:
        if op == 0:
            try:
                s.create_new_trial(arg)
            except KeyError:
                pass
        elif op == 1:
            try:
                s.delete_study(arg)
            except KeyError:
                pass
        elif op == 2:
            try:
                s.set_trial_state_values(arg, TrialState.COMPLETE, [1.0])
            except (KeyError, optuna.exceptions.UpdateFinishedTrialError):
                pass
    ok = True
    for st in s.get_all_studies():
        ts = s.get_all_trials(st._study_id, deepcopy=False)
        for i, t in enumerate(ts):
            if t.number != i:
                ok = False
    return ok

def h2(o1: int, a1: int, o2: int, a2: int) -> bool:
    """
    pre: 0 <= o1 <= 2 and 0 <= o2 <= 2 and 0 <= a1 <= 2 and 0 <= a2 <= 2
    post: _
    """
    return _run([(o1, a1), (o2, a2)])

def h3(o1: int, a1: int, o2: int, a2: int, o3: int, a3: int) -> bool:
    """
    pre: 0 <= o1 <= 2 and 0 <= o2 <= 2 and 0 <= a1 <= 2 and 0 <= a2 <= 2 and 0 <= o3 <= 2 and 0 <= a3 <= 2
    post: _
    """
    return _run([(o1, a1), (o2, a2), (o3, a3)])
