"""Probe C10(b): run the REAL optuna._transform._untransform_numerical_param on float proxies whose
arithmetic follows the standard model fl(x op y) = exact*(1+d), |d|<=2^-53 (absolute form with magnitude
bound B), step a concrete constant, low/high/point symbolic; assert the real _contains()."""
import sys, time, math, builtins, warnings, z3
from fractions import Fraction
import numpy as np
sys.path.insert(0, '/verif/probes')
import symnum_probe as symnum
from symnum_probe import Explorer, SymBool
from optuna import _transform as tr
from optuna.distributions import FloatDistribution, IntDistribution
import optuna.distributions as od
warnings.simplefilter("ignore")
U = Fraction(1, 2**53)
_cnt = [0]
def fresh(name, sort=z3.Real):
    _cnt[0] += 1; return sort(f"{name}{_cnt[0]}")
class F64:
    """double under the standard rounding model; B = bound on |exact| of every op (asserted)"""
    B = None
    def __init__(self, e, exact=False): self.e = e
    @staticmethod
    def lift(o):
        if isinstance(o, F64): return o.e, False
        if isinstance(o, (int, float, np.floating, np.integer)): return z3.RealVal(str(Fraction(float(o)))), True
        if isinstance(o, SymZ): return z3.ToReal(o.e), False
        raise TypeError(type(o))
    @classmethod
    def rnd(cls, exact, scale=1):
        r = fresh("fl"); err = z3.RealVal(str(U * cls.B * scale))
        symnum.cur().solver.add(r >= exact - err, r <= exact + err)
        return F64(r)
    def __add__(s, o): return F64.rnd(s.e + F64.lift(o)[0])
    __radd__ = __add__
    def __sub__(s, o): return F64.rnd(s.e - F64.lift(o)[0])
    def __rsub__(s, o): return F64.rnd(F64.lift(o)[0] - s.e)
    def __mul__(s, o):
        z, const = F64.lift(o); assert const, "multiplication by a symbolic value is outside the linear model"
        return F64.rnd(s.e * z)
    __rmul__ = __mul__
    def __truediv__(s, o):
        z, const = F64.lift(o); assert const, "division by a symbolic value is outside the linear model"
        return F64.rnd(s.e / z, scale=1 / Fraction(float(o)))
    def _cmp(op):
        def f(s, o): return SymBool(op(s.e, F64.lift(o)[0]))
        return f
    __lt__ = _cmp(lambda a, b: a < b); __le__ = _cmp(lambda a, b: a <= b)
    __gt__ = _cmp(lambda a, b: a > b); __ge__ = _cmp(lambda a, b: a >= b)
    __eq__ = _cmp(lambda a, b: a == b); __ne__ = _cmp(lambda a, b: a != b)
    def __hash__(s): return id(s)
    def __abs__(s): return F64(z3.If(s.e >= 0, s.e, -s.e))
    def __round__(s, nd=None): return SymZ.nearest(s)
class SymZ:
    """integer-valued result of round()"""
    def __init__(self, e): self.e = e
    @staticmethod
    def nearest(x):
        n = fresh("n", z3.Int); symnum.cur().solver.add(z3.ToReal(n) - x.e <= 0.5, x.e - z3.ToReal(n) <= 0.5)   # ties either way: over-approx of half-even
        return SymZ(n)
    def __mul__(s, o):
        z, const = F64.lift(o); assert const
        return F64.rnd(z3.ToReal(s.e) * z)
    __rmul__ = __mul__
    def __rsub__(s, o): return F64(F64.lift(o)[0] - z3.ToReal(s.e))     # k - round(k): exact (Sterbenz range)
class NP:
    def __getattr__(self, n): return getattr(np, n)
    def round(self, x): return SymZ.nearest(x) if isinstance(x, F64) else np.round(x)
    def clip(self, x, lo, hi):
        if not isinstance(x, F64): return np.clip(x, lo, hi)
        if x < lo: return lo if isinstance(lo, F64) else F64(F64.lift(lo)[0])
        if x > hi: return hi if isinstance(hi, F64) else F64(F64.lift(hi)[0])
        return x
tr.np = NP(); tr.float = lambda x=0.0: x if isinstance(x, F64) else builtins.float(x)
od.round = lambda x: round(x); od.abs = abs

def run(stepf, L=1000, M=1000):
    F64.B = Fraction(L) + M * Fraction(stepf) + 1
    step = Fraction(stepf)
    low, high, t = z3.Reals("low high t"); m = z3.Int("m")
    hx = low + z3.ToReal(m) * z3.RealVal(str(step)); e = z3.RealVal(str(U * F64.B))
    pre = z3.And(m >= 1, m <= M, low >= -L, low <= L, high >= hx - e, high <= hx + e, t >= low - 1, t <= high + 1)
    res = {}
    def fn():
        d = FloatDistribution.__new__(FloatDistribution)          # constructor bypass: high is the double nearest low+m*step (C11 obligation)
        d.low, d.high, d.step, d.log = F64(low), F64(high), stepf, False
        v = tr._untransform_numerical_param(F64(t), d, True)        # REAL code
        c = d._contains(v)                                          # REAL code
        return c.e if isinstance(c, SymBool) else z3.BoolVal(bool(c))
    ex = Explorer(); t0 = time.time(); r = ex.run_all(fn, pre, timeout_ms=120000)
    print(f"step={stepf}: {r[0]} paths={ex.paths} checks={ex.checks} t={time.time()-t0:.1f}s", flush=True)
    if r[0] == "cex": print("   ", {str(k): r[1][k] for k in (low, high, t, m)})
for st in [1.0, 0.25, 0.1, 0.001]:
    run(st)
