import sys, time, z3
sys.path.insert(0, '/verif/probes')
import symnum_probe as symnum
from symnum_probe import SymReal, SymInt, Explorer
import optuna
from optuna.storages import InMemoryStorage
from optuna.study import StudyDirection
from optuna.trial import TrialState
optuna.logging.set_verbosity(optuna.logging.ERROR)
STATES = [TrialState.RUNNING, TrialState.COMPLETE, TrialState.PRUNED, TrialState.FAIL, TrialState.WAITING]
K = int(sys.argv[1]) if len(sys.argv) > 1 else 3

def harness():
    ops = [z3.Int(f"op{i}") for i in range(K)]
    args = [z3.Int(f"a{i}") for i in range(K)]
    sts = [z3.Int(f"s{i}") for i in range(K)]
    vals = [z3.Real(f"v{i}") for i in range(K)]
    pre = z3.And([z3.And(o >= 0, o <= 2, a >= 0, a <= 3, s >= 0, s <= 4) for o, a, s in zip(ops, args, sts)])
    def fn():
        s = InMemoryStorage()
        sid = s.create_new_study([StudyDirection.MINIMIZE], "a")
        model_best = None   # reference: min over COMPLETE values, as z3 term
        complete = []  # (trial_id, value term)
        state = {}
        for i in range(K):
            op = SymInt(ops[i], 0, 2).concretize()
            if op == 0:
                tid = s.create_new_trial(sid); state[tid] = TrialState.RUNNING
            elif op == 1:
                tid = SymInt(args[i], 0, 3)
                st = STATES[SymInt(sts[i], 0, 4).concretize()]
                try:
                    r = s.set_trial_state_values(tid, st, [SymReal(vals[i])] if st == TrialState.COMPLETE else None)
                    ctid = int(tid)
                    assert ctid in state and not state[ctid].is_finished()
                    if st == TrialState.RUNNING and state[ctid] != TrialState.WAITING:
                        assert r is False
                    else:
                        assert r is True
                        state[ctid] = st
                        if st == TrialState.COMPLETE: complete.append((ctid, vals[i]))
                except KeyError:
                    assert int(tid) not in state
                except optuna.exceptions.UpdateFinishedTrialError:
                    assert state[int(tid)].is_finished()
            else:
                try:
                    b = s.get_best_trial(sid)
                    assert complete
                    bv = symnum.toz(b.value)
                    return z3.And([bv <= v for _, v in complete] + [z3.Or([bv == v for _, v in complete])])
                except ValueError:
                    assert not complete
        return z3.BoolVal(True)
    ex = Explorer(); t = time.time()
    r = ex.run_all(fn, pre)
    print("K", K, r[0], "paths", ex.paths, "checks", ex.checks, "t=%.1f" % (time.time() - t))
    if r[0] == "cex": print(r[1])
harness()
