import z3, time
from fractions import Fraction
U = Fraction(1, 2**53)
cnt = [0]
def fl(exact, cons, B):
    """float op result; |exact| <= B assumed (asserted separately) => abs err <= U*B"""
    cnt[0] += 1
    r = z3.Real(f"fl{cnt[0]}")
    e = z3.RealVal(str(U * B))
    cons.append(z3.And(r >= exact - e, r <= exact + e))
    return r
def rnd(x, cons):
    cnt[0] += 1
    n = z3.Int(f"n{cnt[0]}")
    cons.append(z3.And(z3.ToReal(n) - x <= 0.5, x - z3.ToReal(n) <= 0.5))
    return n
def run(stepf, L=1000, M=1000):
    step = Fraction(stepf)   # exact double value
    zs = z3.RealVal(str(step))
    low, t, high = z3.Reals("low t high"); m = z3.Int("m")
    cons = [m >= 1, m <= M, low >= -L, low <= L]
    B = L + M*step + 1
    hx = low + z3.ToReal(m) * zs
    e = z3.RealVal(str(U*B)); cons += [high >= hx - e, high <= hx + e]
    cons += [t >= low - zs/2, t <= high + zs/2]
    d = fl(t - low, cons, B)
    q = fl(d / zs, cons, B/step)
    n = rnd(q, cons)
    p = fl(z3.ToReal(n) * zs, cons, B)
    s = fl(p + low, cons, B)
    v = z3.If(s < low, low, z3.If(s > high, high, s))
    k1 = fl(v - low, cons, B)
    k = fl(k1 / zs, cons, B/step)
    kr = rnd(k, cons)
    diff = k - z3.ToReal(kr)
    contains = z3.And(low <= v, v <= high, z3.If(diff >= 0, diff, -diff) < z3.RealVal("1e-8"))
    s_ = z3.Solver(); s_.set("timeout", 120000)
    s_.add(cons); s_.add(z3.Not(contains))
    t0 = time.time(); r = s_.check(); print(stepf, "contains:", r, "%.2fs" % (time.time()-t0), flush=True)
    if r == z3.sat:
        mdl = s_.model(); print({str(x): mdl[x] for x in [low, t, m, high]})
for st in [1.0, 0.5, 0.25, 0.1, 0.01, 0.001, 2.5, 3.0, 1e-5]:
    run(st)
