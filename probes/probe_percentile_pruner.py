"""Probe: real PercentilePruner.prune over symbolic intermediate values via a NumPy shim."""
import sys, time, math, builtins, warnings, z3, datetime
import numpy as np
sys.path.insert(0, '/verif/probes')
import symnum_probe as symnum
from symnum_probe import SymReal, SymInt, SymBool, Explorer
import optuna
from optuna.pruners import _percentile as pp
from optuna.trial import TrialState, create_trial
warnings.simplefilter("ignore"); optuna.logging.set_verbosity(optuna.logging.CRITICAL)

def is_sym(x): return isinstance(x, SymReal)
def isnan(x): return False if is_sym(x) else math.isnan(x)
class MathShim:
    def __getattr__(self, n): return getattr(math, n)
    isnan = staticmethod(isnan)
class NP:
    def __getattr__(self, n): return getattr(np, n)
    def asarray(self, a, dtype=None):
        a = list(a)
        if any(is_sym(x) for x in a): return np.array(a, dtype=object)
        return np.asarray(a, dtype=dtype)
    array = asarray
    def _clean(self, a): return [x for x in list(a) if not isnan(x)]
    def nanmin(self, a):
        xs = self._clean(a)
        if not xs: return float("nan")
        m = xs[0]
        for x in xs[1:]:
            if x < m: m = x
        return m
    def nanmax(self, a):
        xs = self._clean(a)
        if not xs: return float("nan")
        m = xs[0]
        for x in xs[1:]:
            if x > m: m = x
        return m
    def nanpercentile(self, a, q):
        xs = self._clean(a)
        if not xs: return float("nan")
        # insertion sort with symbolic comparisons
        s = []
        for x in xs:
            k = 0
            while k < len(s) and s[k] <= x: k += 1
            s.insert(k, x)
        # linear interpolation (numpy default): virtual index (n-1)*q/100
        n = len(s); q = symnum.toz(q) if is_sym(q) else z3.RealVal(str(q))
        pos = (n - 1) * q / 100
        for i in range(n - 1):
            if symnum.cur().decide(z3.And(pos >= i, pos <= i + 1)):
                fr = pos - i
                return SymReal(symnum.toz(s[i]) + fr * (symnum.toz(s[i + 1]) - symnum.toz(s[i])))
        return s[-1]
pp.np = NP(); pp.math = MathShim(); pp.float = lambda x=0.0: x if is_sym(x) else builtins.float(x)

N_OTHER, N_STEPS = 2, 2
def harness():
    V = [[z3.Real(f"o{i}_{s}") for s in range(N_STEPS)] for i in range(N_OTHER)]
    C = [z3.Real(f"c{s}") for s in range(N_STEPS)]
    q = z3.Real("q"); mx = z3.Bool("maximize")
    pre = z3.And(q >= 0, q <= 100)
    # current trial strictly better than everything reported by others so far (all steps), per direction
    better = z3.And([z3.If(mx, C[s] > V[i][t], C[s] < V[i][t]) for s in range(N_STEPS) for i in range(N_OTHER) for t in range(N_STEPS)])
    pre = z3.And(pre, better)
    reached = [0]
    def fn():
        maximize = bool(SymBool(mx))
        study = optuna.create_study(direction="maximize" if maximize else "minimize")
        for i in range(N_OTHER):
            study.add_trial(create_trial(state=TrialState.COMPLETE, value=0.0,
                                         intermediate_values={s: SymReal(V[i][s]) for s in range(N_STEPS)}))
        pruner = pp.PercentilePruner(SymReal(q), n_startup_trials=0, n_warmup_steps=0, interval_steps=1)
        cur = create_trial(state=TrialState.RUNNING, intermediate_values={s: SymReal(C[s]) for s in range(N_STEPS)})
        cur.number = N_OTHER
        r = pruner.prune(study, cur)
        reached[0] += 1
        if isinstance(r, SymBool): return z3.Not(r.e)
        return z3.BoolVal(not r)
    ex = Explorer(); t = time.time(); r = ex.run_all(fn, pre)
    print(r[0], "paths", ex.paths, "checks", ex.checks, "reached", reached[0], "t=%.1f" % (time.time() - t))
    if r[0] == "cex": print(r[1])
harness()
