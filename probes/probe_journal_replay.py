"""Probe C06: one inductive step of journal replay — from seeded replay states, any two records:
batch split independence, issuer independence, issuer-only exceptions, no state change on rejection."""
import sys, time, copy, json, z3, warnings, itertools
sys.path.insert(0, '/verif/probes')
import symnum_probe as symnum
from symnum_probe import Explorer, SymInt, SymReal
import optuna
from optuna.storages.journal import _storage as js
from optuna.storages.journal._storage import JournalStorageReplayResult as RR, JournalOperation as OP
from optuna.distributions import FloatDistribution, IntDistribution, CategoricalDistribution, distribution_to_json
from optuna.trial import TrialState
warnings.simplefilter("ignore"); optuna.logging.set_verbosity(optuna.logging.CRITICAL)
import threading
ME = "me-"; OTHER = "other-"
class TL:  # replace threading in module so that worker_id is deterministic
    Lock = threading.Lock
    @staticmethod
    def get_ident(): return 1
js.threading = TL
WID = {0: ME + "1", 1: ME + "2", 2: OTHER + "1"}          # me, sibling thread of my process, foreign process
DISTS = [distribution_to_json(FloatDistribution(0, 1)), distribution_to_json(IntDistribution(0, 3)), distribution_to_json(FloatDistribution(1, 2, log=True))]
NOW = "2024-01-01T00:00:00.000000"

def seed_logs():
    w = OTHER + "9"
    base = [{"op_code": OP.CREATE_STUDY, "worker_id": w, "study_name": "s0", "directions": [1]},
            {"op_code": OP.CREATE_STUDY, "worker_id": w, "study_name": "s1", "directions": [1, 2]},
            {"op_code": OP.DELETE_STUDY, "worker_id": w, "study_id": 1}]
    def tr(sid, state, **kw):
        d = {"op_code": OP.CREATE_TRIAL, "worker_id": w, "study_id": sid, "datetime_start": NOW, "state": state,
             "value": None, "values": None, "distributions": {}, "params": {}, "user_attrs": {}, "system_attrs": {}, "intermediate_values": {}}
        d.update(kw); return d
    seeds = [[], base,
             base + [tr(0, 0), tr(0, 4), tr(0, 1, value=1.0, datetime_complete=NOW)],
             base + [tr(0, 0, distributions={"x": DISTS[0]}, params={"x": 0.5}), tr(0, 3, datetime_complete=NOW)],
             base[:2] + [tr(1, 0), tr(0, 0)]]
    return seeds

def record(i, pfx):
    """a fully symbolic journal record (fields chosen by forks / symbolic values)"""
    c = lambda name, hi: SymInt(z3.Int(f"{pfx}{name}"), 0, hi).concretize()
    op = c("op", 9); w = WID[c("w", 2)]
    r = {"op_code": op, "worker_id": w}
    if op == OP.CREATE_STUDY: r.update(study_name=["s0", "s1", "new"][c("n", 2)], directions=[1])
    elif op == OP.DELETE_STUDY: r.update(study_id=c("sid", 2))
    elif op == OP.SET_STUDY_USER_ATTR: r.update(study_id=c("sid", 2), user_attr={"k": SymReal(z3.Real(pfx + "v"))})
    elif op == OP.SET_STUDY_SYSTEM_ATTR: r.update(study_id=c("sid", 2), system_attr={"k": 1})
    elif op == OP.CREATE_TRIAL:
        r.update(study_id=c("sid", 2), datetime_start=NOW)
        if c("tmpl", 1):
            st = c("st", 4); r.update(state=st, value=None, values=None, distributions={}, params={}, user_attrs={}, system_attrs={}, intermediate_values={})
            if TrialState(st).is_finished(): r["datetime_complete"] = NOW
            if st == 1: r["value"] = SymReal(z3.Real(pfx + "v"))
    elif op == OP.SET_TRIAL_PARAM:
        r.update(trial_id=c("tid", 3), param_name="x", param_value_internal=1.0, distribution=DISTS[c("d", 2)])
    elif op == OP.SET_TRIAL_STATE_VALUES:
        st = c("st", 4); r.update(trial_id=c("tid", 3), state=st, values=[SymReal(z3.Real(pfx + "v"))] if st == 1 else None)
        if st == 0: r["datetime_start"] = NOW
        if TrialState(st).is_finished(): r["datetime_complete"] = NOW
    elif op == OP.SET_TRIAL_INTERMEDIATE_VALUE: r.update(trial_id=c("tid", 3), step=c("step", 1), intermediate_value=SymReal(z3.Real(pfx + "v")))
    elif op == OP.SET_TRIAL_USER_ATTR: r.update(trial_id=c("tid", 3), user_attr={"k": 1})
    elif op == OP.SET_TRIAL_SYSTEM_ATTR: r.update(trial_id=c("tid", 3), system_attr={"k": 1})
    return r

def view(rr):
    """public state as a comparable structure; symbolic reals by identity of their z3 term"""
    def v(x):
        if isinstance(x, SymReal): return ("sym", str(x.e))
        if isinstance(x, dict): return {k: v(y) for k, y in x.items()}
        if isinstance(x, (list, tuple)): return [v(y) for y in x]
        return x
    st = [(s._study_id, s.study_name, list(s.directions), v(s.user_attrs), v(s.system_attrs)) for s in rr.get_all_studies()]
    tr = {tid: (t.number, t.state, v(t._values), v(t.params), {k: repr(d) for k, d in t.distributions.items()}, v(t.user_attrs), v(t.system_attrs),
                v(t.intermediate_values), t.datetime_start, t.datetime_complete) for tid, t in rr._trials.items()}
    return (st, tr, {k: list(x) for k, x in rr._study_id_to_trial_ids.items()}, dict(rr._trial_id_to_study_id), rr._next_study_id, rr.log_number_read)

def replay(prefix, seed, recs, split):
    """replay seed then recs as worker `prefix`, recs split into batches; returns (view, [exception class per record])"""
    rr = RR(prefix); rr.apply_logs(copy.deepcopy(seed))
    excs = [None] * len(recs)
    batches = [recs] if not split else [[r] for r in recs]
    done = 0
    for b in batches:
        pending = list(b)
        while pending:
            n0 = rr.log_number_read
            try:
                rr.apply_logs(pending); pending = []
            except Exception as e:
                k = rr.log_number_read - n0          # records consumed, the last one raised
                excs[done + k - 1] = type(e).__name__
                pending = pending[k:]; done += k; continue
        done = len(seed) * 0 + (rr.log_number_read - len(seed))
    return view(rr), excs

SEEDS = seed_logs()
def harness(seed_idx):
    seed = SEEDS[seed_idx]; stats = {"paths": 0, "raised": 0}
    def fn():
        r1 = record(1, "a"); r2 = record(2, "b"); recs = [r1, r2]
        views = {}
        for me in (ME, OTHER, "third-"):
            for split in (False, True):
                views[(me, split)] = replay(me, seed, copy.deepcopy(recs), split)
        stats["paths"] += 1
        ref_view, _ = views[("third-", True)]                      # a worker that issued nothing
        for (me, split), (vw, ex) in views.items():
            assert vw == ref_view, ("state differs", me, split, recs)
            for i, r in enumerate(recs):
                mine = r["worker_id"] == me + "1"
                if ex[i] is not None:
                    stats["raised"] += 1
                    assert mine, ("exception at non-issuer", me, r, ex[i])
            # batch independence of the exception pattern
            assert ex == views[(me, not split)][1], ("exceptions depend on batching", me, recs)
        return z3.BoolVal(True)
    ex = Explorer(); t = time.time(); r = ex.run_all(fn, z3.BoolVal(True))
    print("seed", seed_idx, r[0], "paths", ex.paths, stats, "t=%.1f" % (time.time() - t), flush=True)
for i in range(len(SEEDS)) if len(sys.argv) < 2 else [int(sys.argv[1])]:
    harness(i)
