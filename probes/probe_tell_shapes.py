"""Probe: drive the real Study.optimize/_tell_with_warning with a lattice of objective results whose
numeric content is symbolic; module-global shims make float()/math.isnan accept proxies."""
import sys, time, math, builtins, warnings, z3
sys.path.insert(0, '/verif/probes')
import symnum_probe as symnum
from symnum_probe import SymReal, SymInt, Explorer
import optuna
from optuna.study import _tell, _optimize
from optuna.trial import TrialState
warnings.simplefilter("ignore")
optuna.logging.set_verbosity(optuna.logging.CRITICAL)

class MathShim:
    def __getattr__(self, n): return getattr(math, n)
    def isnan(self, x):
        if isinstance(x, SymReal): return False
        return math.isnan(x)
def float_shim(x=0.0):
    return x if isinstance(x, SymReal) else builtins.float(x)
_tell.math = MathShim(); _tell.float = float_shim

SHAPES = ["none", "float", "nan", "inf", "int", "bool", "str_num", "str_bad", "bytes_num", "list1", "list2", "list_str", "list_nan", "tuple1", "empty", "dict", "nested"]
def build(shape, v):
    return {"none": None, "float": SymReal(v), "nan": float("nan"), "inf": float("inf"), "int": 3, "bool": True,
            "str_num": "5", "str_bad": "a", "bytes_num": b"5", "list1": [SymReal(v)], "list2": [SymReal(v), 1.0],
            "list_str": ["5"], "list_nan": [float("nan")], "tuple1": (SymReal(v),), "empty": [], "dict": {}, "nested": [[1.0]]}[shape]

def harness():
    sh = z3.Int("shape"); v = z3.Real("v"); nobj = z3.Int("nobj")
    pre = z3.And(sh >= 0, sh < len(SHAPES), nobj >= 1, nobj <= 2)
    found = []
    def fn():
        shape = SHAPES[SymInt(sh, 0, len(SHAPES) - 1).concretize()]
        n = SymInt(nobj, 1, 2).concretize()
        study = optuna.create_study(directions=["minimize"] * n, sampler=optuna.samplers.RandomSampler(seed=0))
        R = build(shape, v)
        raised = None
        try:
            study.optimize(lambda t: R, n_trials=1)
        except Exception as e:   # noqa
            raised = e
        ts = study.get_trials(deepcopy=False)
        ok = len(ts) == 1 and ts[0].state.is_finished() and raised is None
        if not ok:
            found.append((shape, n, type(raised).__name__, ts[0].state.name))
        return z3.BoolVal(True)
    ex = Explorer(); t = time.time(); r = ex.run_all(fn, pre)
    print(r[0], "paths", ex.paths, "t=%.1f" % (time.time() - t))
    for f in found: print("  ill-formed end state:", f)
harness()
