"""Probe C08: real _CachedStorage (two clients) over a shared fake RDB backend; symbolic op suffix;
every read through a cache is compared with the backend's own view."""
import sys, time, copy, z3, warnings
sys.path.insert(0, '/verif/probes')
import symnum_probe as symnum
from symnum_probe import Explorer, SymInt
import optuna
from optuna.storages import InMemoryStorage
from optuna.storages._cached_storage import _CachedStorage
from optuna.study import StudyDirection
from optuna.trial import TrialState, create_trial
warnings.simplefilter("ignore"); optuna.logging.set_verbosity(optuna.logging.CRITICAL)

class FakeRDB(InMemoryStorage):
    def _create_new_trial(self, study_id, template_trial=None):
        return copy.deepcopy(self.get_trial(self.create_new_trial(study_id, template_trial)))
    def _get_trials(self, study_id, states, included_trial_ids, trial_id_greater_than):
        included = set(i for i in included_trial_ids if i <= trial_id_greater_than)      # prologue of RDBStorage._get_trials
        ts = self.get_all_trials(study_id, deepcopy=True, states=states)
        if trial_id_greater_than > -1:
            ts = [t for t in ts if t._trial_id in included or t._trial_id > trial_id_greater_than]
        return ts
STATES = [TrialState.RUNNING, TrialState.COMPLETE, TrialState.PRUNED, TrialState.FAIL, TrialState.WAITING]
K = int(sys.argv[1]) if len(sys.argv) > 1 else 3
def key(t): return (t._trial_id, t.number, t.state, t.values, dict(t.params), dict(t.user_attrs))
found = []
def harness():
    def fn():
        raw = FakeRDB(); A = _CachedStorage(raw); B = _CachedStorage(raw)
        cl = [A, B]
        sid = A.create_new_study([StudyDirection.MINIMIZE], "s"); sid2 = B.create_new_study([StudyDirection.MINIMIZE], "t")
        hist = []
        for i in range(K):
            c = cl[SymInt(z3.Int(f"c{i}"), 0, 1).concretize()]
            op = SymInt(z3.Int(f"op{i}"), 0, 4).concretize()
            study = [sid, sid2][SymInt(z3.Int(f"sd{i}"), 0, 1).concretize()] if op in (0, 1) else sid
            hist.append((("A", "B")[cl.index(c)], op))
            if op == 0: c.create_new_trial(study)
            elif op == 1:
                st = STATES[SymInt(z3.Int(f"st{i}"), 1, 4).concretize()]
                c.create_new_trial(study, create_trial(state=st, value=1.0 if st == TrialState.COMPLETE else None))
            elif op == 2:
                tid = SymInt(z3.Int(f"t{i}"), 0, K).concretize(); st = STATES[SymInt(z3.Int(f"st{i}"), 0, 3).concretize()]
                try: c.set_trial_state_values(tid, st, [2.0] if st == TrialState.COMPLETE else None)
                except (KeyError, optuna.exceptions.UpdateFinishedTrialError): pass
                hist[-1] += (tid, st.name)
            elif op == 3:
                tid = SymInt(z3.Int(f"t{i}"), 0, K).concretize()
                try: c.set_trial_user_attr(tid, "k", i)
                except (KeyError, optuna.exceptions.UpdateFinishedTrialError): pass
            else:
                got = [key(t) for t in c.get_all_trials(sid, deepcopy=False)]
                want = [key(t) for t in raw.get_all_trials(sid, deepcopy=False)]
                if got != want:
                    found.append(list(hist)); raise AssertionError(("stale cache", hist, got, want))
        return z3.BoolVal(True)
    ex = Explorer(); t = time.time()
    try:
        r = ex.run_all(fn, z3.BoolVal(True)); print("K", K, r[0], "paths", ex.paths, "t=%.1f" % (time.time() - t))
    except AssertionError as e:
        print("K", K, "counterexample after", ex.paths, "paths, t=%.1f" % (time.time() - t)); print("  ", e.args[0][1]); print("   cache:", e.args[0][2]); print("   raw:  ", e.args[0][3])
harness()
