"""Probe C09 (narrow): BaseGASampler.get_parent_population must not depend on the trial-id offset."""
import sys, time, z3, warnings
sys.path.insert(0, '/verif/probes')
import symnum_probe as symnum
from symnum_probe import Explorer, SymInt
import optuna
from optuna.storages import InMemoryStorage
from optuna.trial import TrialState, create_trial
warnings.simplefilter("ignore"); optuna.logging.set_verbosity(optuna.logging.CRITICAL)
class S(optuna.samplers.NSGAIISampler):
    chosen = ()
    def select_parent(self, study, generation):
        ts = study.get_trials(deepcopy=False)
        return [ts[i] for i in self.chosen]
def harness():
    res = {"bad": []}
    def fn():
        storage = InMemoryStorage()
        off = SymInt(z3.Int("off"), 0, 2).concretize()            # trials of another study sharing the id space
        if off:
            other = optuna.create_study(storage=storage, study_name="other")
            for _ in range(off): other.add_trial(create_trial(value=0.0))
        sampler = S(population_size=2, seed=0)
        study = optuna.create_study(storage=storage, study_name="s", directions=["minimize", "minimize"], sampler=sampler)
        for i in range(3): study.add_trial(create_trial(values=[float(i), 1.0]))
        mask = SymInt(z3.Int("mask"), 1, 7).concretize()
        sampler.chosen = tuple(i for i in range(3) if mask >> i & 1)
        first = [t.number for t in sampler.get_parent_population(study, 1)]
        try: second = [t.number for t in sampler.get_parent_population(study, 1)]
        except IndexError: second = "IndexError"
        if first != second: res["bad"].append((off, first, second))
        return z3.BoolVal(True)
    ex = Explorer(); t = time.time(); r = ex.run_all(fn, z3.BoolVal(True))
    print(r[0], "paths", ex.paths, "t=%.1f" % (time.time() - t))
    for b in res["bad"][:6]: print("  offset", b[0], "first call", b[1], "second call (from cache)", b[2])
    print("  mismatching cases:", len(res["bad"]), "of", ex.paths, "(all with offset 0 agree:", all(b[0] != 0 for b in res["bad"]), ")")
harness()
