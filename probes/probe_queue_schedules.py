"""Probe C04(c): two workers run the REAL Study.ask() concurrently; every storage call is one atomic
step; which worker moves next is a symbolic choice decided by the explorer (hand-over-hand threads)."""
import sys, time, threading, z3, warnings
sys.path.insert(0, '/verif/probes')
import symnum_probe as symnum
from symnum_probe import Explorer, SymInt
import optuna
from optuna.storages import InMemoryStorage
from optuna.trial import TrialState
warnings.simplefilter("ignore"); optuna.logging.set_verbosity(optuna.logging.CRITICAL)

class Kill(BaseException): pass
class Sched:
    def __init__(self): self.main = threading.Semaphore(0); self.workers = []; self.kill = False; self.err = None; self.nstep = 0
    def spawn(self, fn):
        w = {"sem": threading.Semaphore(0), "done": False, "res": None}
        def body():
            w["sem"].acquire()
            try:
                if self.kill: raise Kill()
                w["res"] = fn()
            except Kill: pass
            except BaseException as e: self.err = e
            finally:
                w["done"] = True; self.main.release()
        w["thread"] = threading.Thread(target=body, daemon=True); w["thread"].start(); self.workers.append(w)
        return w
    def yield_(self):            # called by a worker before each atomic storage step
        me = self.cur
        self.main.release(); me["sem"].acquire()
        if self.kill: raise Kill()
    def run(self):
        try:
            while True:
                live = [w for w in self.workers if not w["done"]]
                if not live: break
                if self.err: raise self.err
                self.nstep += 1
                i = 0 if len(live) == 1 else SymInt(z3.Int(f"sched{self.nstep}"), 0, len(live) - 1).concretize()
                self.cur = live[i]; live[i]["sem"].release(); self.main.acquire()
            if self.err: raise self.err
        finally:
            self.kill = True
            for w in self.workers:
                if not w["done"]: w["sem"].release()
            for w in self.workers: w["thread"].join()
class Stepwise:
    """storage wrapper: each public call is preceded by a scheduling point"""
    def __init__(self, inner, sched): self._i = inner; self._s = sched
    def __getattr__(self, n):
        a = getattr(self._i, n)
        if not callable(a) or n.startswith("_"): return a
        def f(*args, **kw):
            if threading.current_thread() is not threading.main_thread(): self._s.yield_()
            return a(*args, **kw)
        return f
NQ = int(sys.argv[1]) if len(sys.argv) > 1 else 2
def harness():
    stats = {"paths": 0, "maxsteps": 0}
    def fn():
        sched = Sched()
        storage = InMemoryStorage()
        study = optuna.create_study(storage=storage, sampler=optuna.samplers.RandomSampler(seed=0))
        for q in range(NQ): study.enqueue_trial({"x": 0.1 * (q + 1)})
        study._storage = Stepwise(storage, sched)
        got = []
        def worker():
            t = study.ask(); x = t.suggest_float("x", 0, 1); return (t.number, x)
        ws = [sched.spawn(worker) for _ in range(2)] + ([sched.spawn(worker)] if NQ >= 3 else [])
        sched.run()
        res = [w["res"] for w in ws]
        stats["paths"] += 1; stats["maxsteps"] = max(stats["maxsteps"], sched.nstep)
        nums = [r[0] for r in res]
        assert len(set(nums)) == len(nums), ("trial claimed twice", res)
        for n, x in res:
            if n < NQ: assert x == 0.1 * (n + 1), ("fixed param lost", res)
        waiting = storage.get_all_trials(study._study_id, states=[TrialState.WAITING])
        assert len(waiting) == max(0, NQ - len(ws)), ("queued trial skipped", res, len(waiting))
        return z3.BoolVal(True)
    ex = Explorer(); t = time.time(); r = ex.run_all(fn, z3.BoolVal(True))
    print("queued", NQ, r[0], "schedules", ex.paths, stats, "t=%.1f" % (time.time() - t))
harness()
